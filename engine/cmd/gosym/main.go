// gosym: symbolic execution of Go SSA with SMT back ends — CLI.
package main

import (
	"encoding/json"
	"flag"
	"fmt"
	"os"
	"strings"

	"gosym/sym"
)

func main() {
	if len(os.Args) < 2 {
		fmt.Fprintln(os.Stderr, "usage: gosym run|callees|check ...")
		os.Exit(2)
	}
	switch os.Args[1] {
	case "callees":
		p, err := sym.Load(sym.LoadConfig{HarnessDir: harnessDir, Patterns: []string{"verifharness/props"}, RootPkg: "verifharness/props", Overlay: loadOverlay()})
		if err != nil {
			fmt.Fprintln(os.Stderr, err)
			os.Exit(2)
		}
		for _, l := range p.ExternalCallees(true) {
			fmt.Println(l)
		}
	case "run":
		fs := flag.NewFlagSet("run", flag.ExitOnError)
		workers := fs.Int("j", 8, "workers")
		tl := fs.Int("tlimit", 20000, "per-query limit ms")
		maxp := fs.Int("maxpaths", 0, "path budget")
		trace := fs.Bool("trace", false, "trace")
		fs.Parse(os.Args[2:])
		p, err := sym.Load(sym.LoadConfig{HarnessDir: harnessDir, Patterns: []string{"verifharness/props"}, RootPkg: "verifharness/props", Overlay: loadOverlay()})
		if err != nil {
			fmt.Fprintln(os.Stderr, err)
			os.Exit(2)
		}
		if *trace {
			sym.SlowLog = func(sec float64, res sym.SatResult, extra []*sym.Term) {
				fmt.Fprintf(os.Stderr, "SLOW %.1fs %s:", sec, res)
				for _, t := range extra {
					x := t.String()
					if len(x) > 1500 {
						x = x[:1500]
					}
					fmt.Fprintf(os.Stderr, " %s", x)
				}
				fmt.Fprintln(os.Stderr)
			}
		}
		for _, e := range fs.Args() {
			r := p.Run(e, sym.Options{Workers: *workers, TlimitMs: *tl, MaxPaths: *maxp, Trace: *trace, KeepLog: *trace})
			if *trace {
				os.WriteFile("/tmp/gosym.smt2", []byte(r.Log), 0o644)
			}
			r.Log = ""
			fl := r.Funcs
			r.Funcs = nil
			b, _ := json.MarshalIndent(r, "", " ")
			fmt.Println(string(b))
			var fs []string
			for f := range fl {
				fs = append(fs, f)
			}
			fmt.Println("funcs:", strings.Join(fs, " "))
		}
	case "check":
		os.Exit(checkMain(os.Args[2:]))
	case "replay":
		os.Exit(replayMain(os.Args[2:]))
	default:
		fmt.Fprintln(os.Stderr, "unknown command")
		os.Exit(2)
	}
}

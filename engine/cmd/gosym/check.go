package main

// check.go: `gosym check <property> [--tier quick|thorough]` — runs every harness entry of a
// property, applies vacuity guards, replays counterexamples natively, matches known findings,
// writes /verif/evidence/<id>.json and prints VIOLATION / KNOWN-FINDING lines.

import (
	"encoding/json"
	"flag"
	"fmt"
	"os"
	"os/exec"
	"path/filepath"
	"regexp"
	"sort"
	"strconv"
	"strings"
	"time"

	"gosym/sym"
)

const rootPkg = "verifharness/props"

// verifDir / repoDir: fixed locations for every registered command; $VERIF_DIR and $VERIF_REPO
// redirect a run to scratch copies (used only by bin/benigntest.sh and during development, so
// that /repo and /verif/evidence stay untouched while patches are tried).
var (
	verifDir   = envOr("VERIF_DIR", "/verif")
	repoDir    = envOr("VERIF_REPO", "/repo")
	harnessDir = filepath.Join(verifDir, "harness")
)

func envOr(k, d string) string {
	if v := os.Getenv(k); v != "" {
		return v
	}
	return d
}

type knownFinding struct {
	Property string `json:"property"`
	ID       string `json:"id"`     // region id used by verif.KnownRegion in the harness
	Status   string `json:"status"` // "known" | "fixed"
	Entry    string `json:"entry,omitempty"`
	Label    string `json:"label,omitempty"`
	What     string `json:"what"`
	Commit   string `json:"commit,omitempty"`
}

type propMeta struct {
	Level       string   `json:"level"`
	Explanation string   `json:"explanation,omitempty"`
	Assumptions []string `json:"assumptions"`
	Bounds      map[string]string `json:"bounds"`
	Replay      string   `json:"replay"` // "native" (default) | "interp"
}

func loadKnown() []knownFinding {
	var k []knownFinding
	data, err := os.ReadFile(filepath.Join(verifDir, "known_findings.json"))
	if err != nil {
		return nil
	}
	var wrap struct {
		Findings []knownFinding `json:"findings"`
	}
	if json.Unmarshal(data, &wrap) == nil {
		k = wrap.Findings
	}
	return k
}

func loadMeta(id string) propMeta {
	m := propMeta{Level: "model_checking", Replay: "native"}
	data, err := os.ReadFile(filepath.Join(harnessDir, "props", "meta.json"))
	if err != nil {
		return m
	}
	all := map[string]propMeta{}
	if json.Unmarshal(data, &all) == nil {
		if x, ok := all[id]; ok {
			if x.Level == "" {
				x.Level = "model_checking"
			}
			if x.Replay == "" {
				x.Replay = "native"
			}
			return x
		}
	}
	return m
}

func checkMain(args []string) int {
	fs := flag.NewFlagSet("check", flag.ExitOnError)
	tier := fs.String("tier", "", "quick|thorough")
	workers := fs.Int("j", 16, "workers")
	only := fs.String("only", "", "run only entries matching this regexp")
	noReplay := fs.Bool("noreplay", false, "skip native replay")
	var id string
	if len(args) > 0 && !strings.HasPrefix(args[0], "-") {
		id = args[0]
		args = args[1:]
	}
	fs.Parse(args)
	if id == "" && fs.NArg() > 0 {
		id = fs.Arg(0)
	}
	if id == "" {
		fmt.Fprintln(os.Stderr, "usage: gosym check <property-id> [--tier quick|thorough]")
		return 2
	}
	if *tier == "" {
		*tier = os.Getenv("VERIF_TIER")
	}
	if *tier != "thorough" {
		*tier = "quick"
	}
	seed, _ := strconv.Atoi(os.Getenv("VERIF_SEED"))
	t0 := time.Now()
	meta := loadMeta(id)

	overlay := loadOverlay()
	sym.Tier = *tier
	p, err := sym.Load(sym.LoadConfig{HarnessDir: harnessDir, Patterns: []string{rootPkg}, RootPkg: rootPkg, Overlay: overlay})
	if err != nil {
		fmt.Println("INCONCLUSIVE: load failed:", err)
		writeEvidence(id, *tier, seed, meta, nil, nil, 0, time.Since(t0).Seconds(), []string{"load failed: " + err.Error()}, p)
		return 2
	}
	// known regions active for this property
	known := loadKnown()
	activeKnown := map[string]bool{}
	for _, k := range known {
		if k.Property == id && k.Status == "known" {
			activeKnown[k.ID] = true
		}
	}
	sym.ActiveKnown = activeKnown

	var entries []string
	for name := range p.Root.Members {
		if strings.HasPrefix(name, id+"_") && p.Root.Func(name) != nil {
			entries = append(entries, name)
		}
	}
	sort.Strings(entries)
	if *only != "" {
		re := regexp.MustCompile(*only)
		var f []string
		for _, e := range entries {
			if re.MatchString(e) {
				f = append(f, e)
			}
		}
		entries = f
	}
	if len(entries) == 0 {
		fmt.Println("INCONCLUSIVE: no harness entries for", id)
		return 2
	}
	tl := 20000
	if *tier == "thorough" {
		tl = 60000
	}
	var results []*sym.Result
	var inconcl []string
	for _, e := range entries {
		r := p.Run(e, sym.Options{Workers: *workers, TlimitMs: tl, SampleEvery: 41, SampleOffset: seed})
		results = append(results, r)
		for _, ic := range r.Inconclusive {
			inconcl = append(inconcl, e+": "+ic)
		}
		for _, se := range r.SolverErrors {
			inconcl = append(inconcl, e+": solver error: "+se)
		}
		// vacuity: every statically present Assert / Witness / Reach label must have been reached
		for _, lbl := range p.StaticLabels(e) {
			kind, name := lbl[0], lbl[1]
			switch kind {
			case "Assert":
				if st := r.ByLabel[name]; st == nil || st.Reached == 0 {
					inconcl = append(inconcl, fmt.Sprintf("%s: vacuity: assertion %q never reached", e, name))
				}
			case "Witness":
				if r.Reached["witness:"+name] == 0 {
					inconcl = append(inconcl, fmt.Sprintf("%s: vacuity: witness %q not satisfiable", e, name))
				}
			case "Reach":
				if r.Reached[name] == 0 {
					inconcl = append(inconcl, fmt.Sprintf("%s: vacuity: location %q never reached", e, name))
				}
			}
		}
		fmt.Printf("  %-40s paths=%d aborted=%d asserts=%d(smt %d) violations=%d known-hits=%d queries=%d solver=%.1fs wall=%.1fs\n",
			e, r.Paths, r.Aborted, r.AssertsTotal, r.AssertsSMT, len(r.Violations), len(r.KnownHits), r.Queries, r.SolverSec, r.WallSec)
	}

	// violations: dedupe by (entry,label), replay
	type vkey struct{ e, l string }
	seen := map[vkey]bool{}
	var confirmed []sym.Violation
	replays := 0
	replayOK := 0
	os.MkdirAll(filepath.Join(verifDir, "evidence", "replay"), 0o755)
	for _, r := range results {
		for _, v := range r.Violations {
			k := vkey{v.Entry, v.Label}
			if seen[k] {
				continue
			}
			seen[k] = true
			path := filepath.Join(verifDir, "evidence", "replay", fmt.Sprintf("%s-%s-%s.json", id, v.Entry, sanitize(v.Label)))
			writeReplay(path, v)
			if *noReplay || meta.Replay == "interp" || sym.NoNativeReplay[v.Entry] {
				// concrete re-execution in the interpreter with inputs pinned to the model
				ok := p.ReplayConcrete(v)
				replays++
				if ok {
					replayOK++
					v.Detail += " [replayed in interpreter with pinned inputs]"
					confirmed = append(confirmed, v)
					fmt.Printf("VIOLATION property=%s replay=%s\n", id, path)
					fmt.Printf("  entry=%s assertion=%q model=%v %s\n", v.Entry, v.Label, v.Model, v.Detail)
				} else {
					inconcl = append(inconcl, fmt.Sprintf("%s: counterexample for %q did not reproduce under pinned inputs", v.Entry, v.Label))
				}
				continue
			}
			replays++
			ok, out := nativeReplay(v, path)
			if ok {
				replayOK++
				confirmed = append(confirmed, v)
				fmt.Printf("VIOLATION property=%s replay=%s\n", id, path)
				fmt.Printf("  entry=%s assertion=%q model=%v %s\n", v.Entry, v.Label, v.Model, v.Detail)
			} else {
				inconcl = append(inconcl, fmt.Sprintf("%s: counterexample for %q did not reproduce natively: %s", v.Entry, v.Label, out))
			}
		}
	}
	// witnesses replayed natively (translator validation)
	if !*noReplay && meta.Replay != "interp" {
		n := 0
		for _, r := range results {
			if sym.NoNativeReplay[r.Entry] {
				continue
			}
			for _, w := range r.Witnesses {
				if n >= 6 {
					break
				}
				n++
				path := filepath.Join(verifDir, "evidence", "replay", fmt.Sprintf("%s-%s-witness-%s.json", id, r.Entry, sanitize(w.Label)))
				writeReplay(path, sym.Violation{Entry: r.Entry, Label: w.Label, Model: w.Model})
				ok, out := nativeWitness(r.Entry, w.Label, path)
				replays++
				if ok {
					replayOK++
				} else {
					inconcl = append(inconcl, fmt.Sprintf("%s: witness %q did not reproduce natively (translator mismatch): %s", r.Entry, w.Label, out))
				}
			}
		}
	}
	// differential pass: a seed-dependent sample of the queries is decided again by z3
	diff := differential(results, map[string]int{"quick": 48, "thorough": 160}[*tier])
	if diff["disagree"] > 0 {
		inconcl = append(inconcl, fmt.Sprintf("differential: z3 disagrees with cvc5 on %d sampled queries (scripts kept under evidence/replay/diff-*.smt2)", diff["disagree"]))
	}
	diffStats = diff
	// known findings
	hit := map[string]bool{}
	for _, r := range results {
		for _, h := range r.KnownHits {
			hit[h] = true
		}
	}
	for _, k := range known {
		if k.Property == id && k.Status == "known" && hit[k.ID] {
			fmt.Printf("KNOWN-FINDING: property=%s %s (%s)\n", id, k.What, k.ID)
		}
	}
	wall := time.Since(t0).Seconds()
	writeEvidence(id, *tier, seed, meta, results, confirmed, replayOK, wall, inconcl, p)
	if len(confirmed) > 0 {
		return 1
	}
	if len(inconcl) > 0 {
		for _, ic := range inconcl {
			fmt.Println("INCONCLUSIVE:", ic)
		}
		return 2
	}
	fmt.Printf("OK property=%s tier=%s entries=%d wall=%.1fs\n", id, *tier, len(entries), wall)
	return 0
}

var diffStats map[string]int

// differential runs up to max sampled queries through z3 4.8.12 (10 s cap each).
func differential(results []*sym.Result, max int) map[string]int {
	var qs []sym.SampledQuery
	for _, r := range results {
		qs = append(qs, r.Samples2...)
	}
	// spread the budget over the entries: take every k-th
	if len(qs) > max {
		step := float64(len(qs)) / float64(max)
		var pick []sym.SampledQuery
		for i := 0; i < max; i++ {
			pick = append(pick, qs[int(float64(i)*step)])
		}
		qs = pick
	}
	stats := map[string]int{"sampled": len(qs), "agree": 0, "unknown": 0, "disagree": 0}
	type res struct {
		i   int
		out string
	}
	ch := make(chan res, len(qs))
	sem := make(chan struct{}, 16)
	for i, q := range qs {
		go func(i int, q sym.SampledQuery) {
			sem <- struct{}{}
			defer func() { <-sem }()
			cmd := exec.Command("z3", "-in", "-T:10")
			cmd.Stdin = strings.NewReader(q.Script)
			out, _ := cmd.Output()
			ch <- res{i, strings.TrimSpace(string(out))}
		}(i, q)
	}
	for range qs {
		r := <-ch
		first := strings.SplitN(r.out, "\n", 2)[0]
		want := qs[r.i].Result.String()
		switch {
		case first == want:
			stats["agree"]++
		case first == "sat" || first == "unsat":
			stats["disagree"]++
			os.WriteFile(filepath.Join(verifDir, "evidence", "replay", fmt.Sprintf("diff-%d.smt2", r.i)), []byte("; cvc5: "+want+" z3: "+first+"\n"+qs[r.i].Script), 0o644)
		default:
			stats["unknown"]++
		}
	}
	return stats
}

func sanitize(s string) string {
	return regexp.MustCompile(`[^A-Za-z0-9_.-]+`).ReplaceAllString(s, "_")
}

// loadOverlay reads /verif/harness/overlay/<pkgdir>/<file>.go and maps them into /repo/<pkgdir>/.
func loadOverlay() map[string][]byte {
	ov := map[string][]byte{}
	root := filepath.Join(harnessDir, "_overlay")
	filepath.Walk(root, func(path string, info os.FileInfo, err error) error {
		if err != nil || info.IsDir() || !strings.HasSuffix(path, ".go") {
			return nil
		}
		rel, _ := filepath.Rel(root, path)
		data, _ := os.ReadFile(path)
		ov[filepath.Join(repoDir, rel)] = data
		return nil
	})
	return ov
}

func writeReplay(path string, v sym.Violation) {
	// model values are raw byte strings: store each byte as a rune 0..255 so JSON stays valid
	enc := map[string]string{}
	for k, s := range v.Model {
		rs := make([]rune, 0, len(s))
		for i := 0; i < len(s); i++ {
			rs = append(rs, rune(s[i]))
		}
		enc[k] = string(rs)
	}
	enc["_entry"] = v.Entry
	enc["_label"] = v.Label
	b, _ := json.MarshalIndent(enc, "", " ")
	os.WriteFile(path, b, 0o644)
}

func goTestReplay(entry, modelPath string) (string, error) {
	// overlay: in-package harness files for /repo packages
	ovDir, _ := os.MkdirTemp("", "gosym-replay")
	defer os.RemoveAll(ovDir)
	rep := map[string]string{}
	i := 0
	for k, data := range loadOverlay() {
		f := filepath.Join(ovDir, fmt.Sprintf("ov%d.go", i))
		i++
		os.WriteFile(f, data, 0o644)
		rep[k] = f
	}
	ovJSON := filepath.Join(ovDir, "overlay.json")
	b, _ := json.Marshal(map[string]interface{}{"Replace": rep})
	os.WriteFile(ovJSON, b, 0o644)
	cmd := exec.Command("go", "test", "-vet=off", "-count=1", "-v", "-overlay", ovJSON, "-run", "^TestReplay$", "./props/")
	cmd.Dir = harnessDir
	cmd.Env = append(os.Environ(), "GOFLAGS=-mod=mod", "GOPROXY=off", "GOSUMDB=off", "GOTOOLCHAIN=local",
		"VERIF_MODEL="+modelPath, "VERIF_ENTRY="+entry)
	out, err := cmd.CombinedOutput()
	return string(out), err
}

func nativeReplay(v sym.Violation, modelPath string) (bool, string) {
	out, _ := goTestReplay(v.Entry, modelPath)
	for _, line := range strings.Split(out, "\n") {
		if strings.HasPrefix(line, "REPLAY-FAILED-ASSERT: ") {
			if strings.TrimPrefix(line, "REPLAY-FAILED-ASSERT: ") == v.Label {
				return true, ""
			}
		}
		if v.Kind == "panic" && strings.HasPrefix(line, "REPLAY-PANIC: ") {
			return true, ""
		}
	}
	if len(out) > 600 {
		out = out[len(out)-600:]
	}
	return false, strings.ReplaceAll(out, "\n", " | ")
}

func nativeWitness(entry, label, modelPath string) (bool, string) {
	out, _ := goTestReplay(entry, modelPath)
	for _, line := range strings.Split(out, "\n") {
		if line == "REPLAY-WITNESS: "+label {
			return true, ""
		}
	}
	if len(out) > 600 {
		out = out[len(out)-600:]
	}
	return false, strings.ReplaceAll(out, "\n", " | ")
}

func writeEvidence(id, tier string, seed int, meta propMeta, results []*sym.Result, confirmed []sym.Violation, replayOK int, wall float64, inconcl []string, p *sym.Program) {
	states, trans, evals, nontriv, asserts, assertsSMT := 0, 0, 0, 0, 0, 0
	var samples []interface{}
	funcs := map[string]bool{}
	var notes, skipped []string
	solver := map[string]interface{}{}
	q, nsat, nunsat, nunk := 0, 0, 0, 0
	ssec := 0.0
	perEntry := []interface{}{}
	for _, r := range results {
		states += r.Paths
		trans += r.Transitions
		evals += r.Queries
		nontriv += r.NontrivPaths
		asserts += r.AssertsTotal
		assertsSMT += r.AssertsSMT
		for _, s := range r.Samples {
			if len(samples) < 10 {
				samples = append(samples, map[string]interface{}{"entry": r.Entry, "decisions": s.Decisions, "pc_size": s.PCSize, "outcome": s.Outcome, "asserts": s.Asserts, "model": s.Model})
			}
		}
		for f := range r.Funcs {
			funcs[f] = true
		}
		notes = append(notes, r.Notes...)
		skipped = append(skipped, r.Skipped...)
		q += r.Queries
		nsat += r.NSat
		nunsat += r.NUnsat
		nunk += r.NUnknown
		ssec += r.SolverSec
		labels := map[string]interface{}{}
		for l, st := range r.ByLabel {
			labels[l] = map[string]int{"reached": st.Reached, "proved": st.Proved, "failed": st.Failed, "trivially_true": st.Trivial}
		}
		perEntry = append(perEntry, map[string]interface{}{"entry": r.Entry, "paths": r.Paths, "infeasible_or_assumed_away": r.Aborted,
			"decisions": r.Transitions, "assertions": labels, "reached": r.Reached, "queries": r.Queries, "wall_s": r.WallSec, "known_hits": r.KnownHits})
	}
	solver["cvc5"] = map[string]interface{}{"queries": q, "sat": nsat, "unsat": nunsat, "unknown": nunk, "seconds": ssec}
	var fl []string
	for f := range funcs {
		fl = append(fl, f)
	}
	sort.Strings(fl)
	hashes := map[string]string{}
	if p != nil {
		for f, h := range p.FileHash {
			if strings.HasPrefix(f, repoDir+"/") {
				hashes[f] = h
			}
		}
	}
	if states == 0 {
		states = 1
	}
	if trans == 0 {
		trans = 1
	}
	if len(samples) == 0 {
		samples = append(samples, map[string]interface{}{"note": "no path completed"})
	}
	cov := map[string]interface{}{
		"states":                        states,
		"transitions":                   trans,
		"traces_validated_against_impl": replayOK,
		"samples":                       samples,
		"evaluations":                   evals,
		"distinct_nontrivial":           nontriv,
		"rule":                          "evaluations = SMT queries discharged; a case is one explored path (distinct decision string); non-trivial = the path reached at least one assertion that was not constant-folded and needed the solver",
		"assertion_instances":           asserts,
		"assertion_instances_smt":       assertsSMT,
		"functions_encoded":             fl,
		"source_hashes":                 hashes,
		"bounds":                        meta.Bounds,
		"solver":                        solver,
		"differential":                  map[string]interface{}{"solver": "z3 4.8.12 (-T:10 per query)", "rule": "every 41st query of each worker (offset by VERIF_SEED), capped per tier; disagreement makes the run inconclusive", "stats": diffStats},
		"entries":                       perEntry,
		"notes":                         uniq(notes),
		"not_explored":                  uniq(skipped),
		"inconclusive":                  inconcl,
		"explanation":                   meta.Explanation,
		"exhaustive":                    false,
	}
	ev := map[string]interface{}{
		"property_id": id,
		"tier":        tier,
		"seed":        seed,
		"level":       meta.Level,
		"coverage":    cov,
		"assumptions": meta.Assumptions,
		"wall_s":      wall,
		"violations":  len(confirmed),
	}
	if meta.Assumptions == nil {
		ev["assumptions"] = []string{}
	}
	b, _ := json.MarshalIndent(ev, "", " ")
	os.MkdirAll(filepath.Join(verifDir, "evidence"), 0o755)
	os.WriteFile(filepath.Join(verifDir, "evidence", id+".json"), b, 0o644)
}

func uniq(l []string) []string {
	m := map[string]bool{}
	var out []string
	for _, x := range l {
		if !m[x] {
			m[x] = true
			out = append(out, x)
		}
	}
	sort.Strings(out)
	return out
}

// replayMain: gosym replay <file> — re-runs a recorded counterexample (evidence/replay/*.json)
// against /repo's current tree: natively (go test with the model as input) for harnesses that
// do not depend on environment inputs, otherwise in the interpreter with every input pinned.
// Exit 1 and a VIOLATION line if the recorded assertion fails again, 0 if it does not.
func replayMain(args []string) int {
	if len(args) != 1 {
		fmt.Fprintln(os.Stderr, "usage: gosym replay <evidence/replay/file.json>")
		return 2
	}
	data, err := os.ReadFile(args[0])
	if err != nil {
		fmt.Fprintln(os.Stderr, err)
		return 2
	}
	enc := map[string]string{}
	if err := json.Unmarshal(data, &enc); err != nil {
		fmt.Fprintln(os.Stderr, err)
		return 2
	}
	v := sym.Violation{Entry: enc["_entry"], Label: enc["_label"], Model: map[string]string{}}
	for k, s := range enc {
		if k == "_entry" || k == "_label" {
			continue
		}
		b := make([]byte, 0, len(s))
		for _, r := range s {
			b = append(b, byte(r))
		}
		v.Model[k] = string(b)
	}
	id := v.Entry
	if i := strings.IndexByte(id, '_'); i > 0 {
		id = id[:i]
	}
	p, err := sym.Load(sym.LoadConfig{HarnessDir: harnessDir, Patterns: []string{rootPkg}, RootPkg: rootPkg, Overlay: loadOverlay()})
	if err != nil {
		fmt.Fprintln(os.Stderr, "load:", err)
		return 2
	}
	ok := p.ReplayConcrete(v)
	how := "interpreter with pinned inputs"
	if !ok && !sym.NoNativeReplay[v.Entry] {
		ok, _ = nativeReplay(v, args[0])
		how = "native go test"
	}
	if ok {
		fmt.Printf("VIOLATION property=%s replay=%s\n  entry=%s assertion=%q reproduced (%s)\n", id, args[0], v.Entry, v.Label, how)
		return 1
	}
	fmt.Printf("replay of %s: assertion %q of %s does not fail on the current tree\n", args[0], v.Label, v.Entry)
	return 0
}

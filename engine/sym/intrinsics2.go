package sym

// intrinsics2.go: time, net/http request plumbing, Go-level stub table.

import (
	"fmt"
	"go/types"
	"math/big"
	"strings"
	"time"

	"golang.org/x/tools/go/ssa"
)

var (
	nsPerSec   = IntC(1000000000)
	minDur     = IntBig(new(big.Int).Neg(new(big.Int).Lsh(big.NewInt(1), 63)))
	maxDur     = IntBig(new(big.Int).Sub(new(big.Int).Lsh(big.NewInt(1), 63), big.NewInt(1)))
	nowLo      = new(big.Int).Mul(big.NewInt(946684800), big.NewInt(1000000000))  // 2000-01-01
	nowHi      = new(big.Int).Mul(big.NewInt(4102444800), big.NewInt(1000000000)) // 2100-01-01
	year1Ns    = zeroTimeNs
	year9999Ns = new(big.Int).Mul(big.NewInt(253402300799), big.NewInt(1000000000))
)

func (ex *Exec) now() *Term {
	v := ex.FreshIntRange("now", nowLo, nowHi)
	ex.declareInput(v, v.S)
	if ex.lastNow != nil {
		ex.addPC(Le(ex.lastNow, v))
	}
	ex.lastNow = v
	ex.nowCount++
	return v
}

func timeSub(t, u *Term) *Term {
	d := Sub(t, u)
	if d.lo != nil && d.hi != nil && d.lo.Cmp(minDur.I) >= 0 && d.hi.Cmp(maxDur.I) <= 0 {
		return d
	}
	return Ite(Gt(d, maxDur), maxDur, Ite(Lt(d, minDur), minDur, d))
}

func registerTimeIntrinsics(p *Program) {
	I := p.Intrinsic
	I["time.Now"] = func(ex *Exec, fr *frame, fn *ssa.Function, a []Value) Value { return ex.now() }
	id := func(ex *Exec, fr *frame, fn *ssa.Function, a []Value) Value { return a[0] }
	I["(time.Time).UTC"] = id
	I["(time.Time).Local"] = id
	I["(time.Time).Add"] = func(ex *Exec, fr *frame, fn *ssa.Function, a []Value) Value {
		// exact while the result stays inside years 1..9999 (stored instants are assumed there)
		return Add(tstr(a[0]), tstr(a[1]))
	}
	I["(time.Time).Sub"] = func(ex *Exec, fr *frame, fn *ssa.Function, a []Value) Value {
		return timeSub(tstr(a[0]), tstr(a[1]))
	}
	I["time.Since"] = func(ex *Exec, fr *frame, fn *ssa.Function, a []Value) Value {
		return timeSub(ex.now(), tstr(a[0]))
	}
	I["time.Until"] = func(ex *Exec, fr *frame, fn *ssa.Function, a []Value) Value {
		return timeSub(tstr(a[0]), ex.now())
	}
	I["(time.Time).After"] = func(ex *Exec, fr *frame, fn *ssa.Function, a []Value) Value { return Gt(tstr(a[0]), tstr(a[1])) }
	I["(time.Time).Before"] = func(ex *Exec, fr *frame, fn *ssa.Function, a []Value) Value { return Lt(tstr(a[0]), tstr(a[1])) }
	I["(time.Time).Equal"] = func(ex *Exec, fr *frame, fn *ssa.Function, a []Value) Value { return Eq(tstr(a[0]), tstr(a[1])) }
	I["(time.Time).Compare"] = func(ex *Exec, fr *frame, fn *ssa.Function, a []Value) Value {
		return Ite(Lt(tstr(a[0]), tstr(a[1])), IntC(-1), Ite(Gt(tstr(a[0]), tstr(a[1])), IntC(1), IntC(0)))
	}
	I["(time.Time).IsZero"] = func(ex *Exec, fr *frame, fn *ssa.Function, a []Value) Value {
		return Eq(tstr(a[0]), IntBig(zeroTimeNs))
	}
	I["(time.Time).Unix"] = func(ex *Exec, fr *frame, fn *ssa.Function, a []Value) Value { return DivE(tstr(a[0]), nsPerSec) }
	I["(time.Time).UnixNano"] = func(ex *Exec, fr *frame, fn *ssa.Function, a []Value) Value {
		return WrapInt(tstr(a[0]), 64, true)
	}
	I["time.Unix"] = func(ex *Exec, fr *frame, fn *ssa.Function, a []Value) Value {
		return Add(Mul(nsPerSec, tstr(a[0])), tstr(a[1]))
	}
	I["(time.Time).Format"] = func(ex *Exec, fr *frame, fn *ssa.Function, a []Value) Value {
		layout := constStr(a[1], "time layout")
		t := tstr(a[0])
		if layout != time.RFC3339 {
			if t.IsConst() {
				return StrC(goTime(t).Format(layout))
			}
			panic(Inconclusive{"Time.Format layout " + layout})
		}
		return App("rfc3339", SStr, DivE(t, nsPerSec))
	}
	I["(time.Time).String"] = func(ex *Exec, fr *frame, fn *ssa.Function, a []Value) Value {
		return App("rfc3339", SStr, DivE(tstr(a[0]), nsPerSec))
	}
	I["time.Parse"] = func(ex *Exec, fr *frame, fn *ssa.Function, a []Value) Value {
		layout := constStr(a[0], "time layout")
		s := tstr(a[1])
		if layout != time.RFC3339 {
			panic(Inconclusive{"time.Parse layout " + layout})
		}
		if s.IsConst() {
			t, err := time.Parse(layout, s.S)
			if err != nil {
				return Tuple{IntBig(zeroTimeNs), ex.newError(StrC(err.Error()))}
			}
			return Tuple{IntBig(new(big.Int).Add(new(big.Int).Mul(big.NewInt(t.Unix()), big.NewInt(1000000000)), big.NewInt(int64(t.Nanosecond())))), nilError}
		}
		if ex.Decide(App("parse_ok", SBool, s)) {
			sec := App("parse_t", SInt, s)
			return Tuple{Mul(nsPerSec, sec), nilError}
		}
		return Tuple{IntBig(zeroTimeNs), ex.newError(Concat(StrC("parsing time "), App("fmtq", SStr, s)))}
	}
	I["time.Date"] = func(ex *Exec, fr *frame, fn *ssa.Function, a []Value) Value {
		var v [7]int
		for i := 0; i < 7; i++ {
			v[i] = int(constInt(a[i], "time.Date arg"))
		}
		t := time.Date(v[0], time.Month(v[1]), v[2], v[3], v[4], v[5], v[6], time.UTC)
		return IntBig(new(big.Int).Add(new(big.Int).Mul(big.NewInt(t.Unix()), big.NewInt(1000000000)), big.NewInt(int64(t.Nanosecond()))))
	}
	I["(time.Duration).String"] = func(ex *Exec, fr *frame, fn *ssa.Function, a []Value) Value {
		d := tstr(a[0])
		if d.IsConst() {
			return StrC(time.Duration(d.I.Int64()).String())
		}
		return Concat(fmtInt(d), StrC("ns"))
	}
	I["(time.Duration).Seconds"] = func(ex *Exec, fr *frame, fn *ssa.Function, a []Value) Value {
		d := tstr(a[0])
		if d.IsConst() {
			return time.Duration(d.I.Int64()).Seconds()
		}
		panic(Inconclusive{"Duration.Seconds on symbolic duration"})
	}
}

func goTime(t *Term) time.Time {
	sec, ns := new(big.Int).DivMod(t.I, big.NewInt(1000000000), new(big.Int))
	return time.Unix(sec.Int64(), ns.Int64()).UTC()
}

// fieldIndex finds a struct field by name.
func fieldIndex(t types.Type, name string) int {
	st := t.Underlying().(*types.Struct)
	for i := 0; i < st.NumFields(); i++ {
		if st.Field(i).Name() == name {
			return i
		}
	}
	panic(Inconclusive{fmt.Sprintf("field %s not found in %s", name, t)})
}

func registerGoStubs(p *Program) {
	I := p.Intrinsic
	// (*http.Request).Context / WithContext on the real struct (unexported field ctx)
	I["(*net/http.Request).Context"] = func(ex *Exec, fr *frame, fn *ssa.Function, a []Value) Value {
		c := a[0].(*Cell)
		if c == nil {
			ex.goPanic(fr.fn.String(), "nil *http.Request")
		}
		rt := fn.Signature.Recv().Type().(*types.Pointer).Elem()
		ctx := c.V.(*Struct).F[fieldIndex(rt, "ctx")].V.(*Iface)
		if ctx == nil {
			// context.Background()
			if st, ok := ex.P.GoStub["context.Background"]; ok {
				return ex.CallFunction(fr, st, nil, nil)
			}
			panic(Inconclusive{"no context.Background stub"})
		}
		return ctx
	}
	I["(*net/http.Request).WithContext"] = func(ex *Exec, fr *frame, fn *ssa.Function, a []Value) Value {
		c := a[0].(*Cell)
		if c == nil {
			ex.goPanic(fr.fn.String(), "nil *http.Request")
		}
		ctx, _ := a[1].(*Iface)
		if ctx == nil {
			ex.goPanic(fr.fn.String(), "nil context")
		}
		rt := fn.Signature.Recv().Type().(*types.Pointer).Elem()
		// shallow copy: field cells are fresh, field values shared (pointers/maps alias as in Go)
		old := c.V.(*Struct)
		n := &Struct{F: make([]*Cell, len(old.F))}
		for i, f := range old.F {
			n.F[i] = &Cell{V: copyVal(f.V)}
		}
		n.F[fieldIndex(rt, "ctx")].V = ctx
		return &Cell{V: n}
	}

	sp := p.Prog.ImportedPackage(stubsPkg)
	if sp == nil {
		return
	}
	table := map[string]string{
		"errors.New": "ErrorsNew",
		"github.com/friendsofgo/errors.New":       "ErrorsNew",
		"github.com/friendsofgo/errors.Errorf":    "ErrorsErrorf",
		"github.com/friendsofgo/errors.Wrap":      "ErrorsWrap",
		"github.com/friendsofgo/errors.Wrapf":     "ErrorsWrapf",
		"github.com/friendsofgo/errors.WithStack": "ErrorsWithStack",
		"github.com/friendsofgo/errors.Cause":     "ErrorsCause",
		"context.Background":                      "CtxBackground",
		"context.TODO":                            "CtxBackground",
		"context.WithValue":                       "CtxWithValue",
		"net/http.Redirect":                       "HTTPRedirect",
		"net/http.Error":                          "HTTPError",
		"net/http.NotFound":                       "HTTPNotFound",
		"net/http.NotFoundHandler":                "HTTPNotFoundHandler",
		"(net/http.Header).Set":                   "HeaderSet",
		"(net/http.Header).Get":                   "HeaderGet",
		"(net/http.Header).Add":                   "HeaderAdd",
		"(net/http.Header).Del":                   "HeaderDel",
		"(net/http.HandlerFunc).ServeHTTP":        "HandlerFuncServeHTTP",
		"(*net/http.Request).FormValue":           "RequestFormValue",
		"(*net/http.Request).ParseForm":           "RequestParseForm",
		"(*net/http.Request).PostFormValue":       "RequestFormValue",
		"(net/url.Values).Get":                    "ValuesGet",
		"(net/url.Values).Set":                    "ValuesSet",
		"(net/url.Values).Encode":                 "ValuesEncode",
		"(net/url.Values).Has":                    "ValuesHas",
		"(net/url.Values).Del":                    "ValuesDel",
		"(*net/url.URL).Query":                    "URLQuery",
		"(*net/url.URL).String":                   "URLString",
		"net/url.QueryEscape":                     "QueryEscape",
		"net/url.PathEscape":                      "PathEscape",
		"io.ReadAll":                              "IOReadAll",
		"net/url.Parse":                           "URLParse",
		"(*net/url.URL).IsAbs":                    "URLIsAbs",
		"golang.org/x/crypto/bcrypt.GenerateFromPassword":   "BcryptGenerateFromPassword",
		"golang.org/x/crypto/bcrypt.CompareHashAndPassword": "BcryptCompareHashAndPassword",
		"golang.org/x/crypto/bcrypt.Cost":                   "BcryptCost",
		"io/ioutil.ReadAll":                       "IOReadAll",
	}
	for ext, name := range table {
		if f := sp.Func(name); f != nil {
			p.GoStub[ext] = f
		}
	}
	summaries := map[string]string{
		AuthbossMod + "/otp/twofactor/sms2fa.generateRandomCode":  "SummarySMSCode",
		AuthbossMod + "/otp/twofactor.GenerateRecoveryCodes":      "SummaryRecoveryCodes",
		AuthbossMod + "/otp.generateOTP":                          "SummaryGenerateOTP",
		AuthbossMod + "/defaults.tallyCharacters":                 "SummaryTallyCharacters",
		"(" + AuthbossMod + "/defaults.Rules).Errors":             "SummaryRulesErrors",
	}
	for ext, name := range summaries {
		if f := sp.Func(name); f != nil {
			p.Summary[ext] = f
		}
	}
	// any function in stubs named Stub_<mangled> is also picked up:  Stub_path__Join -> path.Join
	for name, m := range sp.Members {
		if f, ok := m.(*ssa.Function); ok && strings.HasPrefix(name, "Stub_") {
			ext := strings.ReplaceAll(strings.TrimPrefix(name, "Stub_"), "__", ".")
			ext = strings.ReplaceAll(ext, "_", "/")
			p.GoStub[ext] = f
		}
	}
}

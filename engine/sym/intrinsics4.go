package sym

// intrinsics4.go: third-party boundaries — pquerna/otp (TOTP), golang.org/x/oauth2, encoding/json.

import (
	"fmt"
	"go/types"

	"golang.org/x/tools/go/ssa"
)

func init() {
	RegisterUF("totp_ok", SBool, SStr, SStr)
	RegisterUF("totp_okc", SBool, SStr, SStr, SInt, SInt, SInt, SInt)
}

func setField(st *Struct, t types.Type, name string, v Value) {
	st.F[fieldIndex(t, name)].V = v
}

type jsonBlob struct{ m *Map }

func registerThirdParty(p *Program) {
	I := p.Intrinsic
	// totp.Validate(code, secret): an arbitrary but fixed predicate of (code, secret).
	I["github.com/pquerna/otp/totp.Validate"] = func(ex *Exec, fr *frame, fn *ssa.Function, a []Value) Value {
		// validity is not varied with the instant inside one harness run (stated bound)
		return App("totp_ok", SBool, tstr(a[0]), tstr(a[1]))
	}
	// totp.ValidateCustom(code, secret, t, opts): with the options totp.Validate itself uses
	// (period 30, skew 1, six digits, SHA1) it is the same predicate; any other option set is a
	// different arbitrary predicate, related to the standard one only where the relation is
	// certain: skew 0 accepts a subset of the standard window, a larger skew a superset.
	I["github.com/pquerna/otp/totp.ValidateCustom"] = func(ex *Exec, fr *frame, fn *ssa.Function, a []Value) Value {
		tt := fn.Signature.Params().At(3).Type()
		opts := a[3].(*Struct)
		get := func(name string) *Term { return tstr(opts.F[fieldIndex(tt, name)].V) }
		period, skew, digits, alg := get("Period"), get("Skew"), get("Digits"), get("Algorithm")
		code, secret := tstr(a[0]), tstr(a[1])
		base := App("totp_ok", SBool, code, secret)
		std := period.IsConst() && digits.IsConst() && alg.IsConst() && period.I.Int64() == 30 && digits.I.Int64() == 6 && alg.I.Int64() == 0
		if std && skew.IsConst() && skew.I.Int64() == 1 {
			return Tuple{base, nilError}
		}
		c := App("totp_okc", SBool, code, secret, period, skew, digits, alg)
		if std && skew.IsConst() {
			if skew.I.Int64() == 0 {
				ex.addPC(Implies(c, base))
			} else {
				ex.addPC(Implies(base, c))
			}
		}
		return Tuple{c, nilError}
	}
	I["github.com/pquerna/otp/totp.Generate"] = func(ex *Exec, fr *frame, fn *ssa.Function, a []Value) Value {
		if ex.Decide(ex.faultBool("totp.Generate")) {
			return Tuple{(*Cell)(nil), ex.newError(StrC("totp: generate failed"))}
		}
		sec := ex.Fresh("totpsecret!len16", SStr)
		ex.declareInput(sec, sec.S)
		return Tuple{&Cell{V: &Opaque{Kind: "otpkey", Data: sec}}, nilError}
	}
	I["(*github.com/pquerna/otp.Key).Secret"] = func(ex *Exec, fr *frame, fn *ssa.Function, a []Value) Value {
		c := a[0].(*Cell)
		return c.V.(*Opaque).Data.(*Term)
	}

	// oauth2
	I["(*golang.org/x/oauth2.Config).Exchange"] = func(ex *Exec, fr *frame, fn *ssa.Function, a []Value) Value {
		if ex.Decide(ex.Fresh("in!oauth2_exchange_fails", SBool)) {
			return Tuple{(*Cell)(nil), ex.newError(StrC("oauth2: cannot fetch token"))}
		}
		tt := fn.Signature.Results().At(0).Type().(*types.Pointer).Elem()
		st := zero(tt).(*Struct)
		at := ex.Fresh("in!oauth2_access_token", SStr)
		ex.declareInput(at, at.S[3:])
		ex.addPC(Le(StrLen(at), IntC(4)))
		setField(st, tt, "AccessToken", at)
		rt := ex.Fresh("in!oauth2_refresh_token", SStr)
		ex.declareInput(rt, rt.S[3:])
		ex.addPC(Le(StrLen(rt), IntC(4)))
		setField(st, tt, "RefreshToken", rt)
		return Tuple{&Cell{V: st}, nilError}
	}
	I["(*golang.org/x/oauth2.Config).AuthCodeURL"] = func(ex *Exec, fr *frame, fn *ssa.Function, a []Value) Value {
		return Concat(StrC("https://provider.example/auth?state="), App("qescape", SStr, tstr(a[1])))
	}

	// encoding/json on map[string]string (oauth2 pass-along parameters): Marshal produces an
	// opaque fresh string that remembers the map; Unmarshal of such a string restores it,
	// Unmarshal of any other string fails or yields an arbitrary small map.
	I["encoding/json.Marshal"] = func(ex *Exec, fr *frame, fn *ssa.Function, a []Value) Value {
		iv, _ := a[0].(*Iface)
		if iv == nil {
			return Tuple{newBytes(StrC("null")), nilError}
		}
		m, ok := iv.V.(*Map)
		if !ok {
			panic(Inconclusive{"json.Marshal of " + describe(iv.V)})
		}
		j := ex.Fresh("json", SStr)
		ex.declareInput(j, j.S)
		ex.addPC(And(Le(IntC(2), StrLen(j)), Le(StrLen(j), IntC(64))))
		cp := &Map{KT: m.KT, VT: m.VT}
		if m != nil {
			cp.Keys = append(cp.Keys, m.Keys...)
			cp.Vals = append(cp.Vals, m.Vals...)
		}
		blobs, _ := ex.ext["json"].(map[int]*Map)
		if blobs == nil {
			blobs = map[int]*Map{}
			ex.ext["json"] = blobs
		}
		blobs[j.ID] = cp
		return Tuple{newBytes(j), nilError}
	}
	I["encoding/json.Unmarshal"] = func(ex *Exec, fr *frame, fn *ssa.Function, a []Value) Value {
		data := bytesOf(a[0])
		dst, _ := a[1].(*Iface)
		if dst == nil {
			return ex.newError(StrC("json: Unmarshal(nil)"))
		}
		cell, ok := dst.V.(*Cell)
		if !ok || cell == nil {
			return ex.newError(StrC("json: Unmarshal(non-pointer)"))
		}
		pt := dst.T.Underlying().(*types.Pointer).Elem()
		mt, ok := pt.Underlying().(*types.Map)
		if !ok {
			panic(Inconclusive{fmt.Sprintf("json.Unmarshal into %s", pt)})
		}
		blobs, _ := ex.ext["json"].(map[int]*Map)
		if b, ok := blobs[data.ID]; ok {
			cp := &Map{KT: mt.Key(), VT: mt.Elem()}
			cp.Keys = append(cp.Keys, b.Keys...)
			cp.Vals = append(cp.Vals, b.Vals...)
			cell.V = cp
			return nilError
		}
		// arbitrary input
		if ex.Decide(ex.Fresh("json_invalid", SBool)) {
			return ex.newError(StrC("invalid character in JSON"))
		}
		cp := &Map{KT: mt.Key(), VT: mt.Elem()}
		n := ex.Choice(3)
		for i := 0; i < n; i++ {
			k := ex.Fresh("in!json_key", SStr)
			ex.declareInput(k, k.S[3:])
			v := ex.Fresh("in!json_val", SStr)
			ex.declareInput(v, v.S[3:])
			ex.addPC(And(Le(StrLen(k), IntC(6)), Le(StrLen(v), IntC(8))))
			for _, ok := range cp.Keys {
				ex.addPC(Not(Eq(ok.(*Term), k)))
			}
			cp.Keys = append(cp.Keys, k)
			cp.Vals = append(cp.Vals, v)
		}
		cell.V = cp
		return nilError
	}
}

// faultBool: a symbolic "this call fails" flag, enabled only when the harness turned fault
// injection on for the site (verif.EnableFault); otherwise constant false.
func (ex *Exec) faultBool(site string) *Term {
	if on, _ := ex.ext["fault:"+site].(bool); on {
		v := ex.Fresh("in!fault_"+site, SBool)
		ex.declareInput(v, v.S[3:])
		return v
	}
	return False
}

package sym

// exec.go: the SSA interpreter — one Exec per explored path.

import (
	"fmt"
	"os"
	"sync"
	"go/constant"
	"go/token"
	"go/types"
	"math/big"
	"strings"

	"golang.org/x/tools/go/ssa"
)

// Program is the loaded SSA program, shared read-only between workers.
type Program struct {
	Prog      *ssa.Program
	Root      *ssa.Package            // harness root package
	Interp    func(pkgPath string) bool // packages whose init is run / that count as "encoded"
	FileHash  map[string]string
	Intrinsic map[string]Intrinsic
	GoStub    map[string]*ssa.Function
	Summary   map[string]*ssa.Function // library functions replaced by contracts unless verif.NoSummaries()
}

type Intrinsic func(ex *Exec, fr *frame, fn *ssa.Function, args []Value) Value

type deferred struct {
	fn   Value
	args []Value
	call *ssa.CallCommon
}

type frame struct {
	fn        *ssa.Function
	env       map[ssa.Value]Value
	block     *ssa.BasicBlock
	prev      *ssa.BasicBlock
	defers    []*deferred
	result    Value
	panicking *GoPanic
	recovered bool
	visits    map[*ssa.BasicBlock]int
	caller    *frame
}

// AssertResult records one discharged or failed assertion on a path.
type AssertResult struct {
	Label  string
	Holds  bool
	Result SatResult
	Model  map[string]string
}

// Exec is the state of one path.
type Exec struct {
	P        *Program
	S        *Solver
	globals  map[*ssa.Global]*Cell
	pc       []*Term
	pcSet    map[int]bool
	pcVars   map[int]bool
	pcSeen   map[int]bool
	pcSyms   [][]int
	prefix   []int
	pos      int
	decs     []int   // decisions taken on this path (prefix + new)
	forks    [][]int // alternative prefixes discovered on this path
	counters map[string]int
	steps    int
	depth    int

	Inputs   []*Term           // declared nondet inputs (for models)
	InputLbl map[int]string    // term id -> label
	Asserts  []AssertResult
	Reached  map[string]int
	Notes    []string
	Skipped  []string
	Funcs    map[*ssa.Function]bool // functions executed
	nowCount int
	lastNow  *Term
	Unwind   int
	MaxSteps int
	Trace    bool
	ext      map[string]interface{} // scratch for intrinsics (per path)
	unknowns int
	known    []knownRegion
	KnownHits []string
	Witnesses []WitnessRec
	entry    string
	pin      map[string]string
	noSummary bool
	noSummaryFor map[string]bool
	shared    *sharedState
	locksHeld int
	inGo      int
	harnessGlobals map[*Cell]bool
	Effects   func(what, mode string, obj Value)
}

func NewExec(p *Program, s *Solver, prefix []int) *Exec {
	return &Exec{P: p, S: s, noSummaryFor: map[string]bool{}, harnessGlobals: map[*Cell]bool{}, pcSet: map[int]bool{}, pcVars: map[int]bool{}, pcSeen: map[int]bool{}, globals: map[*ssa.Global]*Cell{}, prefix: prefix, counters: map[string]int{},
		InputLbl: map[int]string{}, Reached: map[string]int{}, Funcs: map[*ssa.Function]bool{}, Unwind: 4096, MaxSteps: 20000000,
		ext: map[string]interface{}{}}
}

// ---- path condition and decisions

func (ex *Exec) addPC(t *Term) {
	if t.IsConst() {
		if !t.B {
			panic(PathAbort{"false path condition"})
		}
		return
	}
	if ex.pcSet[t.ID] {
		return
	}
	ex.pc = append(ex.pc, t)
	ex.pcSet[t.ID] = true
	Walk(t, ex.pcSeen, func(x *Term) {
		if x.Op == "var" {
			ex.pcVars[x.ID] = true
		}
	})
	if t.Op == "and" {
		for _, c := range t.Args {
			ex.pcSet[c.ID] = true
		}
	}
	ex.pcSyms = append(ex.pcSyms, symbolsOf(t))
}

// known reports whether the path condition syntactically decides c.
func (ex *Exec) decided(c *Term) (val, ok bool) {
	if ex.pcSet[c.ID] {
		return true, true
	}
	if ex.pcSet[Not(c).ID] {
		return false, true
	}
	if c.Op == "and" {
		all := true
		for _, x := range c.Args {
			if ex.pcSet[Not(x).ID] {
				return false, true
			}
			if !ex.pcSet[x.ID] {
				all = false
			}
		}
		if all {
			return true, true
		}
	}
	if c.Op == "or" {
		for _, x := range c.Args {
			if ex.pcSet[x.ID] {
				return true, true
			}
		}
	}
	return false, false
}

// Assume adds a constraint; aborts the path if it becomes infeasible.
func (ex *Exec) Assume(t *Term) {
	if t.IsConst() {
		if !t.B {
			panic(PathAbort{"assume false"})
		}
		return
	}
	if ex.pos >= len(ex.prefix) {
		// beyond the replayed prefix: keep the invariant "the path condition is satisfiable"
		// (the independence slicing of queries relies on it)
		if r, _ := ex.Check([]*Term{t}, nil); r == Unsat {
			panic(PathAbort{"assume infeasible"})
		} else if r == Unknown {
			ex.unknowns++
		}
	}
	ex.addPC(t)
}

// symbolsOf lists the free symbols of t: variable ids, and one shared id per uninterpreted
// function name (applications of the same function are related by its axioms).
func symbolsOf(t *Term) []int {
	var out []int
	seen := map[int]bool{}
	Walk(t, map[int]bool{}, func(x *Term) {
		id := 0
		switch x.Op {
		case "var":
			id = x.ID
		case "app":
			id = -ufID(x.S)
		case "zeros":
			id = x.ID
		}
		if id != 0 && !seen[id] {
			seen[id] = true
			out = append(out, id)
		}
	})
	return out
}

var ufIDs = map[string]int{}
var ufIDMu sync.Mutex

func ufID(name string) int {
	ufIDMu.Lock()
	defer ufIDMu.Unlock()
	if id, ok := ufIDs[name]; ok {
		return id
	}
	id := len(ufIDs) + 1
	ufIDs[name] = id
	return id
}

// Check decides PC ∧ extra. Without a model request only the conjuncts of the path condition
// that share symbols (transitively) with extra are sent: the path condition is satisfiable
// (invariant), so independent conjuncts cannot change the answer.
func (ex *Exec) Check(extra []*Term, wantModel []*Term) (SatResult, map[int]string) {
	var asserts []*Term
	if len(wantModel) > 0 {
		asserts = ex.pc
	} else {
		syms := map[int]bool{}
		for _, e := range extra {
			for _, s := range symbolsOf(e) {
				syms[s] = true
			}
		}
		inc := make([]bool, len(ex.pc))
		for changed := true; changed; {
			changed = false
			for i := range ex.pc {
				if inc[i] {
					continue
				}
				hit := false
				for _, s := range ex.pcSyms[i] {
					if syms[s] {
						hit = true
						break
					}
				}
				if hit {
					inc[i] = true
					changed = true
					for _, s := range ex.pcSyms[i] {
						syms[s] = true
					}
				}
			}
		}
		for i, c := range ex.pc {
			if inc[i] {
				asserts = append(asserts, c)
			}
		}
	}
	return ex.S.CheckSat(append(append([]*Term{}, asserts...), extra...), wantModel)
}

// Decide forks on a symbolic condition. Returns the side taken on this path.
func (ex *Exec) Decide(c *Term) bool {
	if c.IsConst() {
		return c.B
	}
	if v, ok := ex.decided(c); ok {
		return v // already decided on this path (deterministic: depends only on the path condition)
	}
	if ex.pos < len(ex.prefix) {
		d := ex.prefix[ex.pos]
		ex.pos++
		ex.decs = append(ex.decs, d)
		if d == 1 {
			ex.addPC(c)
			return true
		}
		ex.addPC(Not(c))
		return false
	}
	ex.pos++
	// a free Boolean input that the path condition does not mention yet can go either way:
	// no solver query needed (session presence bits, fault flags, ...)
	if fv := c; fv.Op == "var" || (fv.Op == "not" && fv.Args[0].Op == "var") {
		v := fv
		if v.Op == "not" {
			v = v.Args[0]
		}
		if !ex.pcVars[v.ID] {
			alt := append(append([]int{}, ex.decs...), 0)
			ex.forks = append(ex.forks, alt)
			ex.decs = append(ex.decs, 1)
			ex.addPC(c)
			return true
		}
	}
	rt, _ := ex.Check([]*Term{c}, nil)
	var rf SatResult
	if rt == Unsat {
		rf = Sat // PC is satisfiable (invariant), so the other side is
	} else {
		rf, _ = ex.Check([]*Term{Not(c)}, nil)
	}
	if rt == Unknown || rf == Unknown {
		ex.unknowns++
	}
	tOK, fOK := rt != Unsat, rf != Unsat
	switch {
	case tOK && fOK:
		alt := append(append([]int{}, ex.decs...), 0)
		ex.forks = append(ex.forks, alt)
		ex.decs = append(ex.decs, 1)
		ex.addPC(c)
		return true
	case tOK:
		ex.decs = append(ex.decs, 1)
		ex.addPC(c)
		return true
	case fOK:
		ex.decs = append(ex.decs, 0)
		ex.addPC(Not(c))
		return false
	}
	panic(PathAbort{"infeasible path"})
}

// Choice forks n ways without consulting the solver.
func (ex *Exec) Choice(n int) int {
	if n <= 1 {
		return 0
	}
	if ex.pos < len(ex.prefix) {
		d := ex.prefix[ex.pos]
		ex.pos++
		ex.decs = append(ex.decs, d)
		return d
	}
	ex.pos++
	for i := n - 1; i >= 1; i-- {
		alt := append(append([]int{}, ex.decs...), i)
		ex.forks = append(ex.forks, alt)
	}
	ex.decs = append(ex.decs, 0)
	return 0
}

func (ex *Exec) Fresh(label string, s Sort) *Term {
	k := ex.counters[label]
	ex.counters[label] = k + 1
	return Var(fmt.Sprintf("%s#%d", label, k), s)
}

func (ex *Exec) FreshIntRange(label string, lo, hi *big.Int) *Term {
	k := ex.counters[label]
	ex.counters[label] = k + 1
	return IntVarRange(fmt.Sprintf("%s#%d", label, k), lo, hi)
}

// ConcretizeInt forks until t has a concrete value in [lo, hi).
func (ex *Exec) ConcretizeInt(t *Term, lo, hi int64, what string) (int64, bool) {
	if t.IsConst() {
		v := t.I.Int64()
		return v, t.I.IsInt64() && v >= lo && v < hi
	}
	for i := lo; i < hi; i++ {
		if ex.Decide(Eq(t, IntC(i))) {
			return i, true
		}
	}
	return 0, false
}

func (ex *Exec) goPanic(site string, msg string) {
	panic(&GoPanic{V: &Iface{T: types.Typ[types.String], V: StrC(msg)}, Site: site})
}

// ---- globals

func (ex *Exec) global(g *ssa.Global) *Cell {
	if c, ok := ex.globals[g]; ok {
		return c
	}
	et := g.Type().(*types.Pointer).Elem()
	var c *Cell
	if g.Pkg != nil && ex.P.Interp(g.Pkg.Pkg.Path()) {
		c = &Cell{V: zero(et)}
	} else {
		c = &Cell{V: &Poison{Name: g.String()}}
	}
	ex.globals[g] = c
	if g.Pkg != nil && strings.HasPrefix(g.Pkg.Pkg.Path(), HarnessMod) {
		// model-internal state, not library state (including the element cells of arrays / structs)
		var mark func(v Value)
		mark = func(v Value) {
			switch x := v.(type) {
			case *Cell:
				if x != nil && !ex.harnessGlobals[x] {
					ex.harnessGlobals[x] = true
					mark(x.V)
				}
			case *Struct:
				for _, f := range x.F {
					mark(f)
				}
			case *Array:
				for _, e := range x.E {
					mark(e)
				}
			}
		}
		mark(c)
	}
	if ex.shared != nil && ex.shared.on {
		ex.markShared([]Value{c}) // package-level variables always outlive the request
	}
	return c
}

// ---- operand evaluation

func (ex *Exec) get(fr *frame, v ssa.Value) Value {
	switch x := v.(type) {
	case *ssa.Const:
		return constValue(x)
	case *ssa.Global:
		return ex.global(x)
	case *ssa.Function:
		return &Closure{Fn: x}
	case *ssa.Builtin:
		return x
	}
	if r, ok := fr.env[v]; ok {
		return r
	}
	panic(Inconclusive{fmt.Sprintf("get: no value for %T %s in %s", v, v.Name(), fr.fn)})
}

func constValue(c *ssa.Const) Value {
	if c.Value == nil {
		return zero(c.Type())
	}
	t := c.Type()
	if isNamed(t, "time", "Time") {
		return IntBig(zeroTimeNs)
	}
	if b, ok := t.Underlying().(*types.Basic); ok {
		switch {
		case b.Info()&types.IsBoolean != 0:
			return BoolC(constant.BoolVal(c.Value))
		case b.Info()&types.IsInteger != 0:
			v := constant.ToInt(c.Value)
			bi, ok := new(big.Int).SetString(v.ExactString(), 10)
			if !ok {
				panic(Inconclusive{"bad int const " + v.ExactString()})
			}
			return IntBig(bi)
		case b.Info()&types.IsString != 0:
			return StrC(constant.StringVal(c.Value))
		case b.Info()&types.IsFloat != 0:
			f, _ := constant.Float64Val(c.Value)
			return f
		}
	}
	if _, ok := t.Underlying().(*types.TypeParam); ok {
		panic(Inconclusive{"type-param const"})
	}
	panic(Inconclusive{fmt.Sprintf("const of type %s", t)})
}

// ---- running functions

// CallFunction runs fn with args (and closure env) to completion and returns its result.
func (ex *Exec) CallFunction(caller *frame, fn *ssa.Function, args []Value, env []Value) Value {
	if fn.Origin() != nil && fn.Origin() != fn {
		// generic instantiation: look up intrinsic under the origin's name
		if in, ok := ex.P.Intrinsic[fn.Origin().String()]; ok {
			return in(ex, caller, fn, args)
		}
	}
	name := fn.String()
	if in, ok := ex.P.Intrinsic[name]; ok {
		return in(ex, caller, fn, args)
	}
	if cf, ok := concreteFast[name]; ok {
		if v, ok := cf(args); ok {
			return v
		}
	}
	if st, ok := ex.P.GoStub[name]; ok {
		fn = st
		env = nil
	} else if st, ok := ex.P.Summary[name]; ok && !ex.noSummary && !ex.noSummaryFor[name] {
		ex.Notes = appendUniq(ex.Notes, "pure callee replaced by its contract (summary): "+name)
		fn = st
		env = nil
	}
	if fn.Blocks == nil {
		if fn.Pkg != nil && !ex.P.Interp(fn.Pkg.Pkg.Path()) && fn.Name() == "init" {
			return nil
		}
		panic(Inconclusive{"call to function without body or model: " + name + " (called from " + callerChain(caller) + ")"})
	}
	if fn.Name() == "init" && fn.Pkg != nil && fn.Synthetic != "" && !ex.P.Interp(fn.Pkg.Pkg.Path()) {
		return nil // foreign package initialisers are not run
	}
	ex.depth++
	if ex.depth > 400 {
		panic(Inconclusive{"call depth exceeded at " + name})
	}
	defer func() { ex.depth-- }()
	ex.Funcs[fn] = true
	if ex.Trace {
		fmt.Fprintf(os.Stderr, "%*scall %s (decisions %d, queries %d)\n", ex.depth, "", name, len(ex.decs), ex.S.Queries)
	}
	fr := &frame{fn: fn, env: make(map[ssa.Value]Value, 32), caller: caller, visits: map[*ssa.BasicBlock]int{}}
	for i, p := range fn.Params {
		fr.env[p] = args[i]
	}
	for i, fv := range fn.FreeVars {
		fr.env[fv] = env[i]
	}
	fr.block = fn.Blocks[0]
	ex.runFrame(fr)
	return fr.result
}

func (ex *Exec) runFrame(fr *frame) {
	defer func() {
		if fr.block == nil {
			return // normal return
		}
		r := recover()
		if r == nil {
			return
		}
		gp, ok := r.(*GoPanic)
		if !ok {
			panic(r)
		}
		// Go panic: run deferred calls; a recover() in one of them resumes at the Recover block.
		fr.panicking = gp
		ex.runDefers(fr)
		if fr.panicking != nil {
			panic(fr.panicking)
		}
		// recovered
		if fr.fn.Recover != nil {
			fr.block = fr.fn.Recover
			fr.prev = nil
			ex.runFrame(fr)
		} else {
			// results are the zero values / named results' current values are lost: use zero
			res := fr.fn.Signature.Results()
			switch res.Len() {
			case 0:
				fr.result = nil
			case 1:
				fr.result = zero(res.At(0).Type())
			default:
				fr.result = zero(res)
			}
			fr.block = nil
		}
	}()
	for fr.block != nil {
		b := fr.block
		fr.visits[b]++
		if fr.visits[b] > ex.Unwind {
			panic(Inconclusive{fmt.Sprintf("unwind bound %d exceeded at %s block %d", ex.Unwind, fr.fn, b.Index)})
		}
		next := ex.runBlock(fr, b)
		fr.prev = b
		fr.block = next
	}
}

func (ex *Exec) runDefers(fr *frame) {
	for len(fr.defers) > 0 {
		d := fr.defers[len(fr.defers)-1]
		fr.defers = fr.defers[:len(fr.defers)-1]
		ex.callValue(fr, d.fn, d.args, d.call, true)
	}
}

// runBlock executes the instructions of b and returns the successor (nil = return).
func (ex *Exec) runBlock(fr *frame, b *ssa.BasicBlock) *ssa.BasicBlock {
	for _, instr := range b.Instrs {
		ex.steps++
		if ex.steps > ex.MaxSteps {
			panic(Inconclusive{"step budget exceeded in " + fr.fn.String()})
		}
		switch in := instr.(type) {
		case *ssa.DebugRef:
		case *ssa.Phi:
			for i, p := range b.Preds {
				if p == fr.prev {
					fr.env[in] = ex.get(fr, in.Edges[i])
					break
				}
			}
		case *ssa.Alloc:
			fr.env[in] = &Cell{V: zero(in.Type().(*types.Pointer).Elem())}
		case *ssa.BinOp:
			fr.env[in] = ex.binop(fr, in.Op, in.X.Type(), ex.get(fr, in.X), ex.get(fr, in.Y), in)
		case *ssa.UnOp:
			fr.env[in] = ex.unop(fr, in)
		case *ssa.Call:
			fr.env[in] = ex.doCall(fr, &in.Call, in)
		case *ssa.ChangeInterface:
			fr.env[in] = ex.get(fr, in.X)
		case *ssa.ChangeType:
			fr.env[in] = ex.get(fr, in.X)
		case *ssa.Convert:
			fr.env[in] = ex.convert(fr, in.X.Type(), in.Type(), ex.get(fr, in.X))
		case *ssa.Extract:
			fr.env[in] = ex.get(fr, in.Tuple).(Tuple)[in.Index]
		case *ssa.Field:
			fr.env[in] = copyVal(ex.get(fr, in.X).(*Struct).F[in.Field].V)
		case *ssa.FieldAddr:
			p, ok := ex.get(fr, in.X).(*Cell)
			if !ok {
				panic(Inconclusive{fmt.Sprintf("FieldAddr on %s in %s", describe(ex.get(fr, in.X)), fr.fn)})
			}
			if p == nil {
				ex.goPanic(fr.fn.String(), "runtime error: invalid memory address or nil pointer dereference")
			}
			st, ok := p.V.(*Struct)
			if !ok {
				panic(Inconclusive{fmt.Sprintf("FieldAddr: cell holds %s (%s) in %s", describe(p.V), in.X.Type(), fr.fn)})
			}
			fr.env[in] = st.F[in.Field]
		case *ssa.Index:
			fr.env[in] = ex.indexValue(fr, in)
		case *ssa.IndexAddr:
			fr.env[in] = ex.indexAddr(fr, in)
		case *ssa.Lookup:
			fr.env[in] = ex.lookup(fr, in)
		case *ssa.MakeClosure:
			var env []Value
			for _, bv := range in.Bindings {
				env = append(env, ex.get(fr, bv))
			}
			fr.env[in] = &Closure{Fn: in.Fn.(*ssa.Function), Env: env}
		case *ssa.MakeInterface:
			fr.env[in] = &Iface{T: in.X.Type(), V: ex.get(fr, in.X)}
		case *ssa.MakeMap:
			mt := in.Type().Underlying().(*types.Map)
			fr.env[in] = &Map{KT: mt.Key(), VT: mt.Elem()}
		case *ssa.MakeSlice:
			fr.env[in] = ex.makeSlice(fr, in)
		case *ssa.MapUpdate:
			m := ex.get(fr, in.Map).(*Map)
			if m == nil {
				ex.goPanic(fr.fn.String(), "assignment to entry in nil map")
			}
			ex.sharedMapWrite(fr, m)
			ex.mapUpdate(m, ex.get(fr, in.Key), ex.get(fr, in.Value))
		case *ssa.Range:
			fr.env[in] = ex.rangeIter(fr, in)
		case *ssa.Next:
			fr.env[in] = ex.next(fr, in)
		case *ssa.Slice:
			fr.env[in] = ex.slice(fr, in)
		case *ssa.SliceToArrayPointer:
			panic(Inconclusive{"SliceToArrayPointer"})
		case *ssa.Store:
			ex.store(fr, ex.get(fr, in.Addr), ex.get(fr, in.Val))
		case *ssa.TypeAssert:
			fr.env[in] = ex.typeAssert(fr, in)
		case *ssa.Defer:
			fnv, args := ex.prepareCall(fr, &in.Call)
			fr.defers = append(fr.defers, &deferred{fn: fnv, args: args, call: &in.Call})
		case *ssa.Go:
			// one schedule: the goroutine runs to completion at the point it is spawned
			fnv, args := ex.prepareCall(fr, &in.Call)
			ex.Notes = appendUniq(ex.Notes, "goroutine run synchronously at spawn: "+fr.fn.String())
			// everything the new goroutine can reach through its arguments is shared with the
			// goroutine that starts it (which keeps running): writes to it from inside race
			undo := ex.enterGoroutine(fnv, args)
			ex.callValue(fr, fnv, args, &in.Call, false)
			undo()
		case *ssa.RunDefers:
			ex.runDefers(fr)
		case *ssa.If:
			c := ex.get(fr, in.Cond).(*Term)
			if ex.Decide(c) {
				return b.Succs[0]
			}
			return b.Succs[1]
		case *ssa.Jump:
			return b.Succs[0]
		case *ssa.Panic:
			panic(&GoPanic{V: ex.get(fr, in.X), Site: fr.fn.String()})
		case *ssa.Return:
			switch len(in.Results) {
			case 0:
				fr.result = nil
			case 1:
				fr.result = ex.get(fr, in.Results[0])
			default:
				t := make(Tuple, len(in.Results))
				for i, r := range in.Results {
					t[i] = ex.get(fr, r)
				}
				fr.result = t
			}
			return nil
		default:
			panic(Inconclusive{fmt.Sprintf("unsupported instruction %T in %s", instr, fr.fn)})
		}
	}
	panic(Inconclusive{"block without terminator in " + fr.fn.String()})
}

func appendUniq(l []string, s string) []string {
	for _, x := range l {
		if x == s {
			return l
		}
	}
	return append(l, s)
}

// ---- calls

func (ex *Exec) prepareCall(fr *frame, cc *ssa.CallCommon) (Value, []Value) {
	var args []Value
	var fnv Value
	if cc.IsInvoke() {
		recv, _ := ex.get(fr, cc.Value).(*Iface)
		if recv == nil {
			ex.goPanic(fr.fn.String(), "runtime error: invalid memory address or nil pointer dereference (method call on nil interface "+cc.Method.Name()+")")
		}
		m := ex.P.Prog.LookupMethod(recv.T, cc.Method.Pkg(), cc.Method.Name())
		if m == nil {
			panic(Inconclusive{fmt.Sprintf("method %s not found on %s", cc.Method.Name(), recv.T)})
		}
		fnv = &Closure{Fn: m}
		args = append(args, recv.V)
	} else {
		fnv = ex.get(fr, cc.Value)
	}
	for _, a := range cc.Args {
		args = append(args, ex.get(fr, a))
	}
	return fnv, args
}

func (ex *Exec) doCall(fr *frame, cc *ssa.CallCommon, site ssa.Instruction) Value {
	fnv, args := ex.prepareCall(fr, cc)
	return ex.callValue(fr, fnv, args, cc, false)
}

func (ex *Exec) callValue(fr *frame, fnv Value, args []Value, cc *ssa.CallCommon, deferred bool) Value {
	switch f := fnv.(type) {
	case *Closure:
		if f == nil {
			ex.goPanic(fr.fn.String(), "call of nil function")
		}
		return ex.CallFunction(fr, f.Fn, args, f.Env)
	case *ssa.Builtin:
		return ex.builtin(fr, f, args, cc, deferred)
	}
	panic(Inconclusive{fmt.Sprintf("call of %s in %s", describe(fnv), fr.fn)})
}

// ---- memory

func (ex *Exec) load(fr *frame, addr Value) Value {
	switch p := addr.(type) {
	case *Cell:
		if p == nil {
			ex.goPanic(fr.fn.String(), "runtime error: invalid memory address or nil pointer dereference")
		}
		return copyVal(p.V)
	case *BytePtr:
		return ByteAt(p.A.S, p.Idx)
	}
	panic(Inconclusive{fmt.Sprintf("load through %s in %s", describe(addr), fr.fn)})
}

func (ex *Exec) store(fr *frame, addr Value, v Value) {
	switch p := addr.(type) {
	case *Cell:
		if p == nil {
			ex.goPanic(fr.fn.String(), "runtime error: invalid memory address or nil pointer dereference")
		}
		ex.sharedCellWrite(fr, p)
		storeInto(p, v)
		return
	case *BytePtr:
		ex.sharedBytesWrite(fr, p.A)
		b := v.(*Term)
		p.A.S = writeRegion(p.A.S, p.Idx, IntC(1), StrFromByte(b))
		return
	}
	panic(Inconclusive{fmt.Sprintf("store through %s in %s", describe(addr), fr.fn)})
}

func writeRegion(s, a, l, w *Term) *Term {
	n := StrLen(s)
	end := Add(a, l)
	return Concat(SubstrIn(s, IntC(0), a), w, SubstrIn(s, end, Sub(n, end)))
}

func (ex *Exec) unop(fr *frame, in *ssa.UnOp) Value {
	x := ex.get(fr, in.X)
	switch in.Op {
	case token.MUL:
		return ex.load(fr, x)
	case token.NOT:
		return Not(x.(*Term))
	case token.SUB:
		switch v := x.(type) {
		case *Term:
			return ex.wrapFor(in.Type(), Neg(v))
		case float64:
			return -v
		}
	case token.XOR:
		if t, ok := x.(*Term); ok && t.IsConst() {
			bits, signed := intKind(in.Type())
			r := new(big.Int).Not(t.I)
			return WrapInt(IntBig(r), bits, signed)
		}
		if t, ok := x.(*Term); ok {
			// ^x = -x-1
			return ex.wrapFor(in.Type(), Sub(Neg(t), IntC(1)))
		}
	case token.ARROW:
		panic(Inconclusive{"channel receive in " + fr.fn.String()})
	}
	panic(Inconclusive{fmt.Sprintf("unop %s on %s", in.Op, describe(x))})
}

func intKind(t types.Type) (uint, bool) {
	b, ok := t.Underlying().(*types.Basic)
	if !ok {
		panic(Inconclusive{"intKind of " + t.String()})
	}
	switch b.Kind() {
	case types.Int8:
		return 8, true
	case types.Int16:
		return 16, true
	case types.Int32:
		return 32, true
	case types.Int64, types.Int, types.UntypedInt, types.UntypedRune:
		return 64, true
	case types.Uint8:
		return 8, false
	case types.Uint16:
		return 16, false
	case types.Uint32:
		return 32, false
	case types.Uint64, types.Uint, types.Uintptr:
		return 64, false
	}
	panic(Inconclusive{"intKind of " + t.String()})
}

func (ex *Exec) wrapFor(t types.Type, v *Term) *Term {
	bits, signed := intKind(t)
	return WrapInt(v, bits, signed)
}

func isIntType(t types.Type) bool {
	b, ok := t.Underlying().(*types.Basic)
	return ok && b.Info()&types.IsInteger != 0
}
func isStringType(t types.Type) bool {
	b, ok := t.Underlying().(*types.Basic)
	return ok && b.Info()&types.IsString != 0
}
func isBoolType(t types.Type) bool {
	b, ok := t.Underlying().(*types.Basic)
	return ok && b.Info()&types.IsBoolean != 0
}
func isFloatType(t types.Type) bool {
	b, ok := t.Underlying().(*types.Basic)
	return ok && b.Info()&types.IsFloat != 0
}

func (ex *Exec) binop(fr *frame, op token.Token, xt types.Type, x, y Value, in *ssa.BinOp) Value {
	switch op {
	case token.EQL:
		return ex.equal(x, y)
	case token.NEQ:
		return Not(ex.equal(x, y))
	}
	if xf, ok := x.(float64); ok {
		yf := y.(float64)
		switch op {
		case token.ADD:
			return xf + yf
		case token.SUB:
			return xf - yf
		case token.MUL:
			return xf * yf
		case token.QUO:
			return xf / yf
		case token.LSS:
			return BoolC(xf < yf)
		case token.LEQ:
			return BoolC(xf <= yf)
		case token.GTR:
			return BoolC(xf > yf)
		case token.GEQ:
			return BoolC(xf >= yf)
		}
		panic(Inconclusive{"float op " + op.String()})
	}
	a, ok1 := x.(*Term)
	b, ok2 := y.(*Term)
	if !ok1 || !ok2 {
		panic(Inconclusive{fmt.Sprintf("binop %s on %s, %s in %s", op, describe(x), describe(y), fr.fn)})
	}
	if a.Sort == SStr {
		switch op {
		case token.ADD:
			return Concat(a, b)
		case token.LSS:
			return StrLtLex(a, b)
		case token.GTR:
			return StrLtLex(b, a)
		case token.LEQ:
			return Not(StrLtLex(b, a))
		case token.GEQ:
			return Not(StrLtLex(a, b))
		}
		panic(Inconclusive{"string op " + op.String()})
	}
	if a.Sort == SBool {
		switch op {
		case token.AND:
			return And(a, b)
		case token.OR:
			return Or(a, b)
		}
		panic(Inconclusive{"bool op " + op.String()})
	}
	// integers (time.Time values are Int terms too and only reach comparisons via intrinsics)
	switch op {
	case token.LSS:
		return Lt(a, b)
	case token.LEQ:
		return Le(a, b)
	case token.GTR:
		return Lt(b, a)
	case token.GEQ:
		return Le(b, a)
	}
	rt := in.Type()
	bits, signed := intKind(rt)
	switch op {
	case token.ADD:
		return WrapInt(Add(a, b), bits, signed)
	case token.SUB:
		return WrapInt(Sub(a, b), bits, signed)
	case token.MUL:
		return WrapInt(Mul(a, b), bits, signed)
	case token.QUO, token.REM:
		if ex.Decide(Eq(b, IntC(0))) {
			ex.goPanic(fr.fn.String(), "runtime error: integer divide by zero")
		}
		if op == token.REM && b.IsConst() && b.I.Sign() > 0 && a.lo != nil && a.lo.Sign() >= 0 {
			return ModE(a, b) // non-negative dividend: truncated and Euclidean remainder agree; keeps the range [0, b)
		}
		q := truncDiv(a, b)
		if op == token.QUO {
			return WrapInt(q, bits, signed)
		}
		return WrapInt(Sub(a, Mul(b, q)), bits, signed)
	case token.SHL:
		if b.IsConst() {
			if b.I.Sign() < 0 {
				ex.goPanic(fr.fn.String(), "negative shift amount")
			}
			if b.I.Cmp(big.NewInt(64)) >= 0 {
				return IntC(0)
			}
			m := new(big.Int).Lsh(big.NewInt(1), uint(b.I.Int64()))
			return WrapInt(Mul(a, IntBig(m)), bits, signed)
		}
	case token.SHR:
		if b.IsConst() {
			if b.I.Sign() < 0 {
				ex.goPanic(fr.fn.String(), "negative shift amount")
			}
			if b.I.Cmp(big.NewInt(64)) >= 0 {
				if signed {
					return Ite(Lt(a, IntC(0)), IntC(-1), IntC(0))
				}
				return IntC(0)
			}
			m := new(big.Int).Lsh(big.NewInt(1), uint(b.I.Int64()))
			return DivE(a, IntBig(m)) // floor division == arithmetic shift
		}
	case token.AND, token.OR, token.XOR, token.AND_NOT:
		if a.IsConst() && b.IsConst() {
			var r *big.Int
			switch op {
			case token.AND:
				r = new(big.Int).And(a.I, b.I)
			case token.OR:
				r = new(big.Int).Or(a.I, b.I)
			case token.XOR:
				r = new(big.Int).Xor(a.I, b.I)
			case token.AND_NOT:
				r = new(big.Int).AndNot(a.I, b.I)
			}
			return WrapInt(IntBig(r), bits, signed)
		}
		// both operands are 0/1 flags (results of constant-time comparisons etc.)
		if in01(a) && in01(b) {
			one := IntC(1)
			switch op {
			case token.AND:
				return Ite(And(Eq(a, one), Eq(b, one)), IntC(1), IntC(0))
			case token.OR:
				return Ite(Or(Eq(a, one), Eq(b, one)), IntC(1), IntC(0))
			case token.XOR:
				return Ite(Eq(a, b), IntC(0), IntC(1))
			case token.AND_NOT:
				return Ite(And(Eq(a, one), Not(Eq(b, one))), IntC(1), IntC(0))
			}
		}
		if op == token.AND {
			if a.IsConst() {
				a, b = b, a
			}
			if b.IsConst() && b.I.Sign() >= 0 {
				// x & (2^k - 1) == x mod 2^k
				m := new(big.Int).Add(b.I, big.NewInt(1))
				if m.BitLen() > 0 && new(big.Int).And(m, b.I).Sign() == 0 {
					return ModE(a, IntBig(m))
				}
			}
		}
	}
	panic(Inconclusive{fmt.Sprintf("integer op %s on symbolic operands in %s", op, fr.fn)})
}

func in01(t *Term) bool {
	return t.lo != nil && t.hi != nil && t.lo.Sign() >= 0 && t.hi.Cmp(big.NewInt(1)) <= 0
}

// truncDiv is Go's truncated division on mathematical integers (b != 0 established).
func truncDiv(a, b *Term) *Term {
	if a.IsConst() && b.IsConst() {
		return IntBig(new(big.Int).Quo(a.I, b.I))
	}
	if b.IsConst() && b.I.Sign() > 0 && a.lo != nil && a.lo.Sign() >= 0 {
		return DivE(a, b)
	}
	if b.IsConst() && b.I.Sign() > 0 {
		return Ite(Ge(a, IntC(0)), DivE(a, b), Neg(DivE(Neg(a), b)))
	}
	// general
	return Ite(Ge(a, IntC(0)),
		Ite(Gt(b, IntC(0)), DivE(a, b), Neg(DivE(a, Neg(b)))),
		Ite(Gt(b, IntC(0)), Neg(DivE(Neg(a), b)), DivE(Neg(a), Neg(b))))
}

// equal returns a Bool term for x == y.
func (ex *Exec) equal(x, y Value) *Term {
	switch a := x.(type) {
	case *Term:
		b, ok := y.(*Term)
		if !ok {
			return False
		}
		if a.Sort != b.Sort {
			return False
		}
		return Eq(a, b)
	case float64:
		b, ok := y.(float64)
		return BoolC(ok && a == b)
	case *Cell:
		b, ok := y.(*Cell)
		return BoolC(ok && a == b)
	case *BytePtr:
		b, ok := y.(*BytePtr)
		if !ok || a.A != b.A {
			return False
		}
		return Eq(a.Idx, b.Idx)
	case *Iface:
		b, ok := y.(*Iface)
		if !ok {
			return False
		}
		if a == nil || b == nil {
			return BoolC(a == nil && b == nil)
		}
		if !types.Identical(a.T, b.T) {
			return False
		}
		return ex.equal(a.V, b.V)
	case *Struct:
		b, ok := y.(*Struct)
		if !ok || len(a.F) != len(b.F) {
			return False
		}
		var cs []*Term
		for i := range a.F {
			cs = append(cs, ex.equal(a.F[i].V, b.F[i].V))
		}
		return And(cs...)
	case *Array:
		b, ok := y.(*Array)
		if !ok || len(a.E) != len(b.E) {
			return False
		}
		var cs []*Term
		for i := range a.E {
			cs = append(cs, ex.equal(a.E[i].V, b.E[i].V))
		}
		return And(cs...)
	case *ByteArr:
		b, ok := y.(*ByteArr)
		if !ok {
			return False
		}
		return Eq(a.S, b.S)
	case *Map:
		b, ok := y.(*Map)
		return BoolC(ok && a == b)
	case *SliceV:
		b, ok := y.(*SliceV)
		return BoolC(ok && a == nil && b == nil || ok && a == b)
	case *ByteSlice:
		b, ok := y.(*ByteSlice)
		return BoolC(ok && a == nil && b == nil)
	case *Closure:
		b, ok := y.(*Closure)
		return BoolC(ok && a == nil && b == nil || ok && a == b)
	case *Opaque:
		b, ok := y.(*Opaque)
		return BoolC(ok && a == b)
	case nil:
		return BoolC(y == nil)
	}
	panic(Inconclusive{fmt.Sprintf("equality on %s", describe(x))})
}

func (ex *Exec) convert(fr *frame, from, to types.Type, v Value) Value {
	fu, tu := from.Underlying(), to.Underlying()
	switch {
	case isIntType(to) && isIntType(from):
		return ex.wrapFor(to, v.(*Term))
	case isStringType(to) && isStringType(from):
		return v
	case isStringType(to) && isIntType(from):
		t := v.(*Term)
		if t.IsConst() {
			return StrC(string(rune(t.I.Int64())))
		}
		// rune -> string for ASCII range only
		if ex.Decide(And(Ge(t, IntC(0)), Lt(t, IntC(128)))) {
			return StrFromByte(t)
		}
		panic(Inconclusive{"string(rune) of non-ASCII symbolic rune"})
	case isFloatType(to) && isIntType(from):
		t := v.(*Term)
		if t.IsConst() {
			f, _ := new(big.Float).SetInt(t.I).Float64()
			return f
		}
		panic(Inconclusive{"float(symbolic int)"})
	case isIntType(to) && isFloatType(from):
		f := v.(float64)
		bi, _ := big.NewFloat(f).Int(nil)
		return ex.wrapFor(to, IntBig(bi))
	case isFloatType(to) && isFloatType(from):
		return v
	}
	if ts, ok := tu.(*types.Slice); ok && isStringType(from) {
		s := v.(*Term)
		if isByteType(ts.Elem()) {
			n := StrLen(s)
			return &ByteSlice{A: &ByteArr{S: s}, Off: IntC(0), Len: n, Cap: n}
		}
		// []rune(s): concrete only
		if s.IsConst() {
			rs := []rune(s.S)
			a := &Array{E: make([]*Cell, len(rs))}
			for i, r := range rs {
				a.E[i] = &Cell{V: IntC(int64(r))}
			}
			return &SliceV{A: a, Len: len(rs), Cap: len(rs)}
		}
		panic(Inconclusive{"[]rune(symbolic string)"})
	}
	if fs, ok := fu.(*types.Slice); ok && isStringType(to) {
		if isByteType(fs.Elem()) {
			b := v.(*ByteSlice)
			if b == nil {
				return StrC("")
			}
			return SubstrIn(b.A.S, b.Off, b.Len)
		}
		sl := v.(*SliceV)
		var sb strings.Builder
		if sl != nil {
			for i := 0; i < sl.Len; i++ {
				t := sl.A.E[sl.Off+i].V.(*Term)
				if !t.IsConst() {
					panic(Inconclusive{"string([]rune) symbolic"})
				}
				sb.WriteRune(rune(t.I.Int64()))
			}
		}
		return StrC(sb.String())
	}
	if _, ok := tu.(*types.Pointer); ok {
		return v // unsafe.Pointer <-> *T: pass through
	}
	if b, ok := tu.(*types.Basic); ok && b.Kind() == types.UnsafePointer {
		return v
	}
	panic(Inconclusive{fmt.Sprintf("convert %s -> %s in %s", from, to, fr.fn)})
}

func (ex *Exec) typeAssert(fr *frame, in *ssa.TypeAssert) Value {
	x, _ := ex.get(fr, in.X).(*Iface)
	ok := false
	var res Value
	if x != nil {
		if it, isI := in.AssertedType.Underlying().(*types.Interface); isI {
			ok = types.Implements(x.T, it)
			if ok {
				res = x
			}
		} else {
			ok = types.Identical(x.T, in.AssertedType)
			if ok {
				res = x.V
			}
		}
	}
	if in.CommaOk {
		if !ok {
			res = zero(in.AssertedType)
		}
		return Tuple{res, BoolC(ok)}
	}
	if !ok {
		d := "nil"
		if x != nil {
			d = x.T.String()
		}
		ex.goPanic(fr.fn.String(), fmt.Sprintf("interface conversion: interface is %s, not %s", d, in.AssertedType))
	}
	return res
}

func callerChain(fr *frame) string {
	var parts []string
	for f := fr; f != nil && len(parts) < 6; f = f.caller {
		parts = append(parts, f.fn.String())
	}
	return strings.Join(parts, " <- ")
}

package sym

// concrete.go: fast paths for pure standard-library functions when every argument is
// concrete — the real function is called. With symbolic arguments the call falls through to
// a Go-level stub or to interpretation of the function's own SSA body.

import (
	"net/http"
	"net/textproto"
	"path"
	"strings"
)

func allConstStr(args []Value) ([]string, bool) {
	out := make([]string, len(args))
	for i, a := range args {
		t, ok := a.(*Term)
		if !ok || !t.IsConst() || t.Sort != SStr {
			return nil, false
		}
		out[i] = t.S
	}
	return out, true
}

var concreteFast = map[string]func(args []Value) (Value, bool){
	"path.Join": func(args []Value) (Value, bool) {
		s, _ := args[0].(*SliceV)
		if s == nil {
			return StrC(""), true
		}
		var elems []string
		for i := 0; i < s.Len; i++ {
			t, ok := s.A.E[s.Off+i].V.(*Term)
			if !ok || !t.IsConst() {
				return nil, false
			}
			elems = append(elems, t.S)
		}
		return StrC(path.Join(elems...)), true
	},
	"path.Clean": func(args []Value) (Value, bool) {
		if s, ok := allConstStr(args); ok {
			return StrC(path.Clean(s[0])), true
		}
		return nil, false
	},
	"path.Split": func(args []Value) (Value, bool) {
		if s, ok := allConstStr(args); ok {
			d, f := path.Split(s[0])
			return Tuple{StrC(d), StrC(f)}, true
		}
		return nil, false
	},
	"path.Base": func(args []Value) (Value, bool) {
		if s, ok := allConstStr(args); ok {
			return StrC(path.Base(s[0])), true
		}
		return nil, false
	},
	"net/textproto.CanonicalMIMEHeaderKey": func(args []Value) (Value, bool) {
		if s, ok := allConstStr(args); ok {
			return StrC(textproto.CanonicalMIMEHeaderKey(s[0])), true
		}
		return nil, false
	},
	"net/http.CanonicalHeaderKey": func(args []Value) (Value, bool) {
		if s, ok := allConstStr(args); ok {
			return StrC(http.CanonicalHeaderKey(s[0])), true
		}
		return nil, false
	},
	"net/http.StatusText": func(args []Value) (Value, bool) {
		t, ok := args[0].(*Term)
		if !ok || !t.IsConst() {
			return nil, false
		}
		return StrC(http.StatusText(int(t.I.Int64()))), true
	},
	"strings.ToUpper": func(args []Value) (Value, bool) {
		if s, ok := allConstStr(args); ok {
			return StrC(strings.ToUpper(s[0])), true
		}
		return nil, false
	},
	"strings.TrimPrefix": func(args []Value) (Value, bool) {
		if s, ok := allConstStr(args); ok {
			return StrC(strings.TrimPrefix(s[0], s[1])), true
		}
		return nil, false
	},
	"strings.TrimSuffix": func(args []Value) (Value, bool) {
		if s, ok := allConstStr(args); ok {
			return StrC(strings.TrimSuffix(s[0], s[1])), true
		}
		return nil, false
	},
	"strings.TrimLeft": func(args []Value) (Value, bool) {
		if s, ok := allConstStr(args); ok {
			return StrC(strings.TrimLeft(s[0], s[1])), true
		}
		return nil, false
	},
	"strings.TrimRight": func(args []Value) (Value, bool) {
		if s, ok := allConstStr(args); ok {
			return StrC(strings.TrimRight(s[0], s[1])), true
		}
		return nil, false
	},
	"strings.Trim": func(args []Value) (Value, bool) {
		if s, ok := allConstStr(args); ok {
			return StrC(strings.Trim(s[0], s[1])), true
		}
		return nil, false
	},
	"strings.LastIndex": func(args []Value) (Value, bool) {
		if s, ok := allConstStr(args); ok {
			return IntC(int64(strings.LastIndex(s[0], s[1]))), true
		}
		return nil, false
	},
}

package sym

// intrinsics3.go: low-level string primitives of the standard library (internal/bytealg,
// internal/stringslite) so that pure stdlib code built on them (net/url, path, strings.Cut ...)
// can be interpreted from its own source.

import (
	"golang.org/x/tools/go/ssa"
)

func (ex *Exec) countStr(s, sep *Term) *Term {
	if s.IsConst() && sep.IsConst() {
		n := 0
		if sep.S == "" {
			return IntC(int64(len([]rune(s.S)) + 1))
		}
		for i := 0; i+len(sep.S) <= len(s.S); {
			if s.S[i:i+len(sep.S)] == sep.S {
				n++
				i += len(sep.S)
			} else {
				i++
			}
		}
		return IntC(int64(n))
	}
	if !sep.IsConst() || sep.S == "" {
		panic(Inconclusive{"strings.Count with symbolic or empty separator"})
	}
	n := int64(0)
	rest := s
	sl := IntC(int64(len(sep.S)))
	for {
		idx := StrIndexOf(rest, sep, IntC(0))
		if ex.Decide(Lt(idx, IntC(0))) {
			return IntC(n)
		}
		n++
		if n > 256 {
			panic(Inconclusive{"strings.Count: more than 256 occurrences"})
		}
		st := Add(idx, sl)
		rest = SubstrIn(rest, st, Sub(StrLen(rest), st))
	}
}

// lastIndex: forks on the position of the last occurrence.
func (ex *Exec) lastIndex(s, sep *Term) *Term {
	if !sep.IsConst() || sep.S == "" {
		panic(Inconclusive{"LastIndex with symbolic or empty separator"})
	}
	last := IntC(-1)
	base := IntC(0)
	rest := s
	sl := IntC(int64(len(sep.S)))
	for i := 0; ; i++ {
		idx := StrIndexOf(rest, sep, IntC(0))
		if ex.Decide(Lt(idx, IntC(0))) {
			return last
		}
		if i > 256 {
			panic(Inconclusive{"LastIndex: more than 256 occurrences"})
		}
		last = Add(base, idx)
		// continue searching after the first byte of this occurrence (occurrences may overlap)
		st := Add(idx, IntC(1))
		base = Add(base, st)
		rest = SubstrIn(rest, st, Sub(StrLen(rest), st))
		_ = sl
	}
}

func registerLowLevel(p *Program) {
	I := p.Intrinsic
	idx := func(ex *Exec, fr *frame, fn *ssa.Function, a []Value) Value {
		return StrIndexOf(tstr(a[0]), tstr(a[1]), IntC(0))
	}
	idxByte := func(ex *Exec, fr *frame, fn *ssa.Function, a []Value) Value {
		return StrIndexOf(tstr(a[0]), StrFromByte(tstr(a[1])), IntC(0))
	}
	I["internal/stringslite.Index"] = idx
	I["internal/bytealg.IndexString"] = idx
	I["internal/stringslite.IndexByte"] = idxByte
	I["internal/bytealg.IndexByteString"] = idxByte
	I["internal/bytealg.IndexByte"] = func(ex *Exec, fr *frame, fn *ssa.Function, a []Value) Value {
		return StrIndexOf(bytesOf(a[0]), StrFromByte(tstr(a[1])), IntC(0))
	}
	I["internal/bytealg.CountString"] = func(ex *Exec, fr *frame, fn *ssa.Function, a []Value) Value {
		return ex.countStr(tstr(a[0]), StrFromByte(tstr(a[1])))
	}
	I["strings.Count"] = func(ex *Exec, fr *frame, fn *ssa.Function, a []Value) Value {
		return ex.countStr(tstr(a[0]), tstr(a[1]))
	}
	I["internal/stringslite.HasPrefix"] = func(ex *Exec, fr *frame, fn *ssa.Function, a []Value) Value {
		return StrPrefixOf(tstr(a[1]), tstr(a[0]))
	}
	I["internal/stringslite.HasSuffix"] = func(ex *Exec, fr *frame, fn *ssa.Function, a []Value) Value {
		return StrSuffixOf(tstr(a[1]), tstr(a[0]))
	}
	I["strings.LastIndex"] = func(ex *Exec, fr *frame, fn *ssa.Function, a []Value) Value {
		return ex.lastIndex(tstr(a[0]), tstr(a[1]))
	}
	I["strings.LastIndexByte"] = func(ex *Exec, fr *frame, fn *ssa.Function, a []Value) Value {
		return ex.lastIndex(tstr(a[0]), StrFromByte(tstr(a[1])))
	}
	I["internal/bytealg.LastIndexByteString"] = I["strings.LastIndexByte"]
	I["internal/bytealg.Equal"] = func(ex *Exec, fr *frame, fn *ssa.Function, a []Value) Value {
		return Eq(bytesOf(a[0]), bytesOf(a[1]))
	}
	I["strings.Compare"] = func(ex *Exec, fr *frame, fn *ssa.Function, a []Value) Value {
		x, y := tstr(a[0]), tstr(a[1])
		return Ite(Eq(x, y), IntC(0), Ite(StrLtLex(x, y), IntC(-1), IntC(1)))
	}
	// strings.Builder: content kept in the buf field ([]byte)
	I["(*strings.Builder).WriteString"] = func(ex *Exec, fr *frame, fn *ssa.Function, a []Value) Value {
		sb := builderBuf(ex, a[0])
		sb.V = ex.appendBuiltin(fr, sb.V, tstr(a[1]))
		return Tuple{StrLen(tstr(a[1])), nilError}
	}
	I["(*strings.Builder).WriteByte"] = func(ex *Exec, fr *frame, fn *ssa.Function, a []Value) Value {
		sb := builderBuf(ex, a[0])
		sb.V = ex.appendBuiltin(fr, sb.V, StrFromByte(tstr(a[1])))
		return nilError
	}
	I["(*strings.Builder).WriteRune"] = func(ex *Exec, fr *frame, fn *ssa.Function, a []Value) Value {
		r := tstr(a[1])
		if !ex.Decide(And(Ge(r, IntC(0)), Lt(r, IntC(128)))) {
			panic(Inconclusive{"strings.Builder.WriteRune of non-ASCII symbolic rune"})
		}
		sb := builderBuf(ex, a[0])
		sb.V = ex.appendBuiltin(fr, sb.V, StrFromByte(r))
		return Tuple{IntC(1), nilError}
	}
	I["(*strings.Builder).Write"] = func(ex *Exec, fr *frame, fn *ssa.Function, a []Value) Value {
		sb := builderBuf(ex, a[0])
		s := bytesOf(a[1])
		sb.V = ex.appendBuiltin(fr, sb.V, s)
		return Tuple{StrLen(s), nilError}
	}
	I["(*strings.Builder).String"] = func(ex *Exec, fr *frame, fn *ssa.Function, a []Value) Value {
		return bytesOf(builderBuf(ex, a[0]).V)
	}
	I["(*strings.Builder).Len"] = func(ex *Exec, fr *frame, fn *ssa.Function, a []Value) Value {
		return StrLen(bytesOf(builderBuf(ex, a[0]).V))
	}
	I["(*strings.Builder).Grow"] = func(ex *Exec, fr *frame, fn *ssa.Function, a []Value) Value { return nil }
	I["(*strings.Builder).Reset"] = func(ex *Exec, fr *frame, fn *ssa.Function, a []Value) Value {
		builderBuf(ex, a[0]).V = (*ByteSlice)(nil)
		return nil
	}
	// bytes.Buffer: same idea on its buf field, reads consume from the front via off
	I["(*bytes.Buffer).WriteString"] = func(ex *Exec, fr *frame, fn *ssa.Function, a []Value) Value {
		sb := bufferBuf(ex, a[0])
		sb.V = ex.appendBuiltin(fr, sb.V, tstr(a[1]))
		return Tuple{StrLen(tstr(a[1])), nilError}
	}
	I["(*bytes.Buffer).WriteByte"] = func(ex *Exec, fr *frame, fn *ssa.Function, a []Value) Value {
		sb := bufferBuf(ex, a[0])
		sb.V = ex.appendBuiltin(fr, sb.V, StrFromByte(tstr(a[1])))
		return nilError
	}
	I["(*bytes.Buffer).Write"] = func(ex *Exec, fr *frame, fn *ssa.Function, a []Value) Value {
		sb := bufferBuf(ex, a[0])
		s := bytesOf(a[1])
		sb.V = ex.appendBuiltin(fr, sb.V, s)
		return Tuple{StrLen(s), nilError}
	}
	I["(*bytes.Buffer).String"] = func(ex *Exec, fr *frame, fn *ssa.Function, a []Value) Value {
		c, _ := a[0].(*Cell)
		if c == nil {
			return StrC("<nil>")
		}
		return bytesOf(bufferBuf(ex, a[0]).V)
	}
	I["(*bytes.Buffer).Bytes"] = func(ex *Exec, fr *frame, fn *ssa.Function, a []Value) Value {
		return newBytes(bytesOf(bufferBuf(ex, a[0]).V))
	}
	I["(*bytes.Buffer).Len"] = func(ex *Exec, fr *frame, fn *ssa.Function, a []Value) Value {
		return StrLen(bytesOf(bufferBuf(ex, a[0]).V))
	}
	I["(*bytes.Buffer).Reset"] = func(ex *Exec, fr *frame, fn *ssa.Function, a []Value) Value {
		bufferBuf(ex, a[0]).V = (*ByteSlice)(nil)
		return nil
	}
}

func structField(ex *Exec, v Value, name string, what string) *Cell {
	c, _ := v.(*Cell)
	if c == nil {
		panic(&GoPanic{V: &Iface{V: StrC("nil " + what)}, Site: what})
	}
	st, ok := c.V.(*Struct)
	if !ok {
		panic(Inconclusive{what + ": receiver is " + describe(c.V)})
	}
	switch what {
	case "strings.Builder":
		return st.F[1] // {addr *Builder; buf []byte}
	case "bytes.Buffer":
		return st.F[0] // {buf []byte; off int; lastRead readOp}
	}
	panic(Inconclusive{"structField " + what})
}

func builderBuf(ex *Exec, v Value) *Cell { return structField(ex, v, "buf", "strings.Builder") }
func bufferBuf(ex *Exec, v Value) *Cell  { return structField(ex, v, "buf", "bytes.Buffer") }

package sym

// regex.go: regexp.MustCompile / MatchString — translated to SMT-LIB regular expressions
// (exact for the supported subset: literals, classes, ., * + ?, concatenation, alternation,
// groups, ^ and $ at the ends). Concrete subjects use the real regexp package.

import (
	"fmt"
	"regexp"
	"regexp/syntax"
	"strings"
	"unicode"

	"golang.org/x/tools/go/ssa"
)

func reRange(lo, hi rune) string {
	if lo > 255 {
		return "re.none"
	}
	if hi > 255 {
		hi = 255
	}
	if lo == hi {
		return fmt.Sprintf("(str.to_re %s)", smtStr(string([]byte{byte(lo)})))
	}
	return fmt.Sprintf("(re.range %s %s)", smtStr(string([]byte{byte(lo)})), smtStr(string([]byte{byte(hi)})))
}

func reToSMT(r *syntax.Regexp) (string, error) {
	switch r.Op {
	case syntax.OpEmptyMatch:
		return `(str.to_re "")`, nil
	case syntax.OpLiteral:
		var parts []string
		for _, c := range r.Rune {
			if r.Flags&syntax.FoldCase != 0 && c < 128 && (c|0x20) >= 'a' && (c|0x20) <= 'z' {
				parts = append(parts, fmt.Sprintf("(re.union %s %s)", reRange(c|0x20, c|0x20), reRange(c&^0x20, c&^0x20)))
			} else {
				parts = append(parts, reRange(c, c))
			}
		}
		if len(parts) == 1 {
			return parts[0], nil
		}
		return "(re.++ " + strings.Join(parts, " ") + ")", nil
	case syntax.OpCharClass:
		var parts []string
		for i := 0; i+1 < len(r.Rune); i += 2 {
			parts = append(parts, reRange(r.Rune[i], r.Rune[i+1]))
		}
		if len(parts) == 0 {
			return "re.none", nil
		}
		if len(parts) == 1 {
			return parts[0], nil
		}
		return "(re.union " + strings.Join(parts, " ") + ")", nil
	case syntax.OpAnyChar:
		return "re.allchar", nil
	case syntax.OpAnyCharNotNL:
		return `(re.diff re.allchar (str.to_re "\u{a}"))`, nil
	case syntax.OpCapture:
		return reToSMT(r.Sub[0])
	case syntax.OpStar, syntax.OpPlus, syntax.OpQuest:
		s, err := reToSMT(r.Sub[0])
		if err != nil {
			return "", err
		}
		op := map[syntax.Op]string{syntax.OpStar: "re.*", syntax.OpPlus: "re.+", syntax.OpQuest: "re.opt"}[r.Op]
		return "(" + op + " " + s + ")", nil
	case syntax.OpConcat, syntax.OpAlternate:
		var parts []string
		for _, sub := range r.Sub {
			s, err := reToSMT(sub)
			if err != nil {
				return "", err
			}
			parts = append(parts, s)
		}
		op := "re.++"
		if r.Op == syntax.OpAlternate {
			op = "re.union"
		}
		return "(" + op + " " + strings.Join(parts, " ") + ")", nil
	}
	return "", fmt.Errorf("regexp construct %s not supported", r.Op)
}

// compileSMTRegex translates pattern to an SMT regex for whole-string membership that is
// equivalent to regexp.MatchString (unanchored search).
func compileSMTRegex(pattern string) (string, error) {
	re, err := syntax.Parse(pattern, syntax.Perl)
	if err != nil {
		return "", err
	}
	re = re.Simplify()
	subs := []*syntax.Regexp{re}
	if re.Op == syntax.OpConcat {
		subs = re.Sub
	}
	begin, end := false, false
	if len(subs) > 0 && subs[0].Op == syntax.OpBeginText {
		begin = true
		subs = subs[1:]
	}
	if len(subs) > 0 && subs[len(subs)-1].Op == syntax.OpEndText {
		end = true
		subs = subs[:len(subs)-1]
	}
	var parts []string
	if !begin {
		parts = append(parts, "re.all")
	}
	for _, s := range subs {
		x, err := reToSMT(s)
		if err != nil {
			return "", err
		}
		parts = append(parts, x)
	}
	if !end {
		parts = append(parts, "re.all")
	}
	if len(parts) == 0 {
		return `(str.to_re "")`, nil
	}
	if len(parts) == 1 {
		return parts[0], nil
	}
	return "(re.++ " + strings.Join(parts, " ") + ")", nil
}

type regexObj struct {
	pattern string
	re      *regexp.Regexp
	smt     string
	err     error
}

func registerRegex(p *Program) {
	I := p.Intrinsic
	I["regexp.MustCompile"] = func(ex *Exec, fr *frame, fn *ssa.Function, a []Value) Value {
		pat := constStr(a[0], "regexp pattern")
		re, err := regexp.Compile(pat)
		if err != nil {
			ex.goPanic(fr.fn.String(), "regexp: Compile: "+err.Error())
		}
		o := &regexObj{pattern: pat, re: re}
		o.smt, o.err = compileSMTRegex(pat)
		return &Cell{V: &Opaque{Kind: "regexp", Data: o}}
	}
	I["(*regexp.Regexp).MatchString"] = func(ex *Exec, fr *frame, fn *ssa.Function, a []Value) Value {
		c, _ := a[0].(*Cell)
		if c == nil {
			ex.goPanic(fr.fn.String(), "nil *regexp.Regexp")
		}
		o := c.V.(*Opaque).Data.(*regexObj)
		s := tstr(a[1])
		if s.IsConst() {
			return BoolC(o.re.MatchString(s.S))
		}
		if n := StrLen(s); n.hi != nil && n.hi.IsInt64() && n.hi.Int64() <= 32 {
			// bounded subject: unroll Go's own compiled program instead of using the solver's
			// regular-expression engine
			re, err := syntax.Parse(o.pattern, syntax.Perl)
			if err == nil {
				prog, err2 := syntax.Compile(re.Simplify())
				if err2 == nil {
					if t, err3 := regexBounded(prog, s, n.hi.Int64()); err3 == nil {
						ex.Notes = appendUniq(ex.Notes, "regexp "+o.pattern+" decided by bounded unrolling of the compiled program (bytes >= 0x80 treated as single characters)")
						return t
					}
				}
			}
		}
		if o.err != nil {
			panic(Inconclusive{"regexp " + o.pattern + ": " + o.err.Error()})
		}
		return intern(&Term{Op: "in_re", Sort: SBool, S: o.smt, Args: []*Term{s}})
	}
	I["(*regexp.Regexp).String"] = func(ex *Exec, fr *frame, fn *ssa.Function, a []Value) Value {
		return StrC(a[0].(*Cell).V.(*Opaque).Data.(*regexObj).pattern)
	}
}

// text/template (only used by defaults.SMTPMailer): opaque template objects.
func registerTemplate(p *Program) {
	I := p.Intrinsic
	I["text/template.New"] = func(ex *Exec, fr *frame, fn *ssa.Function, a []Value) Value {
		return &Cell{V: &Opaque{Kind: "template", Data: constStr(a[0], "template name")}}
	}
	I["(*text/template.Template).Funcs"] = func(ex *Exec, fr *frame, fn *ssa.Function, a []Value) Value { return a[0] }
	I["(*text/template.Template).Parse"] = func(ex *Exec, fr *frame, fn *ssa.Function, a []Value) Value {
		return Tuple{a[0], nilError}
	}
	I["text/template.Must"] = func(ex *Exec, fr *frame, fn *ssa.Function, a []Value) Value {
		if e, _ := a[1].(*Iface); e != nil {
			panic(&GoPanic{V: e, Site: "template.Must"})
		}
		return a[0]
	}
	I["(*text/template.Template).Execute"] = func(ex *Exec, fr *frame, fn *ssa.Function, a []Value) Value {
		w, _ := a[1].(*Iface)
		if w == nil {
			ex.goPanic(fr.fn.String(), "nil writer")
		}
		ex.effect("template.Execute", "read", a[0])
		m := ex.P.Prog.LookupMethod(w.T, nil, "Write")
		if m == nil {
			panic(Inconclusive{"template.Execute: writer without Write"})
		}
		ex.CallFunction(fr, m, []Value{w.V, newBytes(StrC("‹rendered e-mail›"))}, nil)
		return nilError
	}
}

// effect records an access to a shared object by a modelled library call (used by C20).
func (ex *Exec) effect(what, mode string, obj Value) {
	if ex.Effects != nil {
		ex.Effects(what, mode, obj)
	}
}

// unicode classification: exact tables for ASCII; symbolic runes reach here only after the
// range-over-string model restricted them to < 0x80.
func registerUnicode(p *Program) {
	I := p.Intrinsic
	rng := func(r *Term, lo, hi int64) *Term { return And(Le(IntC(lo), r), Le(r, IntC(hi))) }
	I["unicode.IsLetter"] = func(ex *Exec, fr *frame, fn *ssa.Function, a []Value) Value {
		r := tstr(a[0])
		if r.IsConst() {
			return BoolC(unicode.IsLetter(rune(r.I.Int64())))
		}
		return Or(rng(r, 65, 90), rng(r, 97, 122))
	}
	I["unicode.IsUpper"] = func(ex *Exec, fr *frame, fn *ssa.Function, a []Value) Value {
		r := tstr(a[0])
		if r.IsConst() {
			return BoolC(unicode.IsUpper(rune(r.I.Int64())))
		}
		return rng(r, 65, 90)
	}
	I["unicode.IsLower"] = func(ex *Exec, fr *frame, fn *ssa.Function, a []Value) Value {
		r := tstr(a[0])
		if r.IsConst() {
			return BoolC(unicode.IsLower(rune(r.I.Int64())))
		}
		return rng(r, 97, 122)
	}
	I["unicode.IsDigit"] = func(ex *Exec, fr *frame, fn *ssa.Function, a []Value) Value {
		r := tstr(a[0])
		if r.IsConst() {
			return BoolC(unicode.IsDigit(rune(r.I.Int64())))
		}
		return rng(r, 48, 57)
	}
	I["unicode.IsSpace"] = func(ex *Exec, fr *frame, fn *ssa.Function, a []Value) Value {
		r := tstr(a[0])
		if r.IsConst() {
			return BoolC(unicode.IsSpace(rune(r.I.Int64())))
		}
		return Or(rng(r, 9, 13), Eq(r, IntC(32)))
	}
}

package sym

// intrinsics.go: models of the environment boundary (see DESIGN.md 2.3) and the verif API.

import (
	"strconv"
	"fmt"
	"net/url"
	"go/types"
	"math/big"
	"strings"

	"golang.org/x/tools/go/ssa"
)

const verifPkg = HarnessMod + "/verif"
const stubsPkg = HarnessMod + "/stubs"

func tstr(v Value) *Term { return v.(*Term) }

func constStr(v Value, what string) string {
	t := v.(*Term)
	if !t.IsConst() {
		panic(Inconclusive{what + " must be a constant string"})
	}
	return t.S
}

func constInt(v Value, what string) int64 {
	t := v.(*Term)
	if !t.IsConst() {
		panic(Inconclusive{what + " must be a constant int"})
	}
	return t.I.Int64()
}

// bytesOf returns the content string of a []byte value.
func bytesOf(v Value) *Term {
	b, _ := v.(*ByteSlice)
	if b == nil {
		return StrC("")
	}
	return SubstrIn(b.A.S, b.Off, b.Len)
}

func newBytes(s *Term) *ByteSlice {
	n := StrLen(s)
	return &ByteSlice{A: &ByteArr{S: s}, Off: IntC(0), Len: n, Cap: n}
}

// strSliceOf converts a []string value to terms.
func strSliceOf(v Value) []*Term {
	s, _ := v.(*SliceV)
	if s == nil {
		return nil
	}
	out := make([]*Term, s.Len)
	for i := 0; i < s.Len; i++ {
		out[i] = s.A.E[s.Off+i].V.(*Term)
	}
	return out
}

func newStrSlice(ts []*Term) *SliceV {
	a := &Array{E: make([]*Cell, len(ts))}
	for i, t := range ts {
		a.E[i] = &Cell{V: t}
	}
	return &SliceV{A: a, Len: len(ts), Cap: len(ts)}
}

// newError builds an error value of the harness stub error type with the given message.
func (ex *Exec) newError(msg *Term) Value {
	sp := ex.P.Prog.ImportedPackage(stubsPkg)
	if sp == nil {
		panic(Inconclusive{"stubs package not loaded (needed for error values)"})
	}
	tn := sp.Type("Err")
	if tn == nil {
		panic(Inconclusive{"stubs.Err missing"})
	}
	st := zero(tn.Type()).(*Struct)
	st.F[0].V = msg
	return &Iface{T: types.NewPointer(tn.Type()), V: &Cell{V: st}}
}

var nilError = (*Iface)(nil)

func init() {
	ufFixedLen["sha512"] = 64
	ufFixedLen["ideal_hash"] = 20
	const b64std = "ABCDEFGHIJKLMNOPQRSTUVWXYZabcdefghijklmnopqrstuvwxyz0123456789+/="
	const b64url = "ABCDEFGHIJKLMNOPQRSTUVWXYZabcdefghijklmnopqrstuvwxyz0123456789-_="
	ufAlphabet["b64e_std"] = b64std
	ufAlphabet["b64e_url"] = b64url
	ufAlphabet["ideal_hash"] = "0123456789abcdef"
	ufAlphabet["fmtx"] = "0123456789abcdef" // %x of a byte string: two lower-case hex digits per byte
	RegisterUF("ideal_hash", SStr, SStr)
	RegisterUF("sha512", SStr, SStr)
	RegisterUF("b64e_std", SStr, SStr)
	RegisterUF("b64e_url", SStr, SStr)
	RegisterUF("b64d_std", SStr, SStr)
	RegisterUF("b64d_url", SStr, SStr)
	RegisterUF("b64ok_std", SBool, SStr)
	RegisterUF("b64ok_url", SBool, SStr)
	RegisterUF("rfc3339", SStr, SInt)
	RegisterUF("parse_ok", SBool, SStr)
	RegisterUF("parse_t", SInt, SStr)
	RegisterUF("tolower", SStr, SStr)
	RegisterUF("qescape", SStr, SStr)
	RegisterUF("qunescape", SStr, SStr)
	RegisterUF("pescape", SStr, SStr)
	RegisterUF("fmtq", SStr, SStr)
	RegisterUF("fmtx", SStr, SStr)

	// injective UFs: f(a) = f(b) => a = b, instantiated pairwise on occurring applications
	injective := map[string]bool{"sha512": true, "rfc3339": true, "fmtq": true, "fmtx": true, "pescape": true, "ideal_hash": true}
	RegisterAxiom(func(n *Term, existing []*Term) []*Term {
		var out []*Term
		if injective[n.S] {
			for _, e := range existing {
				if e.S == n.S && e != n {
					out = append(out, Implies(mk("=", SBool, n, e), Eq(n.Args[0], e.Args[0])))
				}
			}
		}
		switch n.S {
		case "b64e_std", "b64e_url":
			k := strings.TrimPrefix(n.S, "b64e_")
			out = append(out, App("b64ok_"+k, SBool, n))
			out = append(out, mk("=", SBool, App("b64d_"+k, SStr, n), n.Args[0]))
			// padded length: 4 * ceil(len/3)
			out = append(out, mk("=", SBool, mkInt("str.len", nil, nil, n), Mul(IntC(4), DivE(Add(StrLen(n.Args[0]), IntC(2)), IntC(3)))))
		case "fmtx":
			out = append(out, mk("=", SBool, mkInt("str.len", nil, nil, n), Mul(IntC(2), StrLen(n.Args[0]))))
		case "qescape":
			out = append(out, mk("=", SBool, App("qunescape", SStr, n), n.Args[0]))
		case "rfc3339":
			out = append(out, App("parse_ok", SBool, n))
			out = append(out, mk("=", SBool, App("parse_t", SInt, n), n.Args[0]))
		}
		return out
	})
}

func registerIntrinsics(p *Program) {
	I := p.Intrinsic

	// ---------------- verif API
	I[verifPkg+".String"] = func(ex *Exec, fr *frame, fn *ssa.Function, a []Value) Value {
		label := constStr(a[0], "verif.String label")
		max := constInt(a[1], "verif.String maxLen")
		v := ex.Fresh(fmt.Sprintf("in!%s!max%d", label, max), SStr)
		ex.declareInput(v, label+v.S[strings.LastIndexByte(v.S, '#'):])
		return v
	}
	I[verifPkg+".StringN"] = func(ex *Exec, fr *frame, fn *ssa.Function, a []Value) Value {
		label := constStr(a[0], "verif.StringN label")
		n := constInt(a[1], "verif.StringN len")
		v := ex.Fresh(fmt.Sprintf("in!%s!len%d", label, n), SStr)
		ex.declareInput(v, v.S[3:])
		return v
	}
	I[verifPkg+".Int"] = func(ex *Exec, fr *frame, fn *ssa.Function, a []Value) Value {
		label := constStr(a[0], "verif.Int label")
		lo, hi := tstr(a[1]), tstr(a[2])
		var v *Term
		if lo.IsConst() && hi.IsConst() {
			v = ex.FreshIntRange("in!"+label, lo.I, hi.I)
		} else {
			v = ex.Fresh("in!"+label, SInt)
			ex.Assume(And(Le(lo, v), Le(v, hi)))
		}
		ex.declareInput(v, v.S[3:])
		return v
	}
	I[verifPkg+".Bool"] = func(ex *Exec, fr *frame, fn *ssa.Function, a []Value) Value {
		label := constStr(a[0], "verif.Bool label")
		v := ex.Fresh("in!"+label, SBool)
		ex.declareInput(v, v.S[3:])
		return v
	}
	I[verifPkg+".Choice"] = func(ex *Exec, fr *frame, fn *ssa.Function, a []Value) Value {
		label := constStr(a[0], "verif.Choice label")
		n := constInt(a[1], "verif.Choice n")
		k := ex.counters["choice!"+label]
		ex.counters["choice!"+label] = k + 1
		var c int
		pinnedChoice := false
		if ex.pin != nil {
			// pinned replay: take the recorded alternative instead of enumerating all of them
			if val, ok := ex.pin[fmt.Sprintf("choice:%s#%d", label, k)]; ok {
				if pv, err := strconv.Atoi(val); err == nil && pv >= 0 && pv < int(n) {
					c, pinnedChoice = pv, true
				}
			}
		}
		if !pinnedChoice {
			c = ex.Choice(int(n))
		}
		ex.Notes = appendUniq(ex.Notes, fmt.Sprintf("choice %s over %d alternatives (enumerated)", label, n))
		// record as pseudo-input for replay
		v := Var(fmt.Sprintf("ch!%s#%d", label, k), SInt)
		ex.declareInput(v, fmt.Sprintf("choice:%s#%d", label, k))
		ex.addPC(Eq(v, IntC(int64(c))))
		return IntC(int64(c))
	}
	I[verifPkg+".Assume"] = func(ex *Exec, fr *frame, fn *ssa.Function, a []Value) Value {
		ex.Assume(tstr(a[0]))
		return nil
	}
	I[verifPkg+".Assert"] = func(ex *Exec, fr *frame, fn *ssa.Function, a []Value) Value {
		ex.CheckAssert(tstr(a[0]), constStr(a[1], "verif.Assert label"))
		return nil
	}
	I[verifPkg+".Reach"] = func(ex *Exec, fr *frame, fn *ssa.Function, a []Value) Value {
		ex.Reached[constStr(a[0], "verif.Reach label")]++
		return nil
	}
	I[verifPkg+".Symbolic"] = func(ex *Exec, fr *frame, fn *ssa.Function, a []Value) Value { return True }
	I[verifPkg+".Feasible"] = func(ex *Exec, fr *frame, fn *ssa.Function, a []Value) Value {
		// Feasible(c): is c satisfiable under the current path condition? (no fork)
		r, _ := ex.Check([]*Term{tstr(a[0])}, nil)
		if r == Unknown {
			ex.unknowns++
		}
		return BoolC(r != Unsat)
	}
	I[verifPkg+".UFStr"] = func(ex *Exec, fr *frame, fn *ssa.Function, a []Value) Value {
		name := constStr(a[0], "UF name")
		args := strSliceOf(a[1])
		if _, ok := UFs[name]; !ok {
			panic(Inconclusive{"unknown UF " + name})
		}
		if name == "qescape" && len(args) == 1 && IsCharList(args[0]) {
			if f := ex.P.Prog.ImportedPackage(stubsPkg).Func("QueryEscapeChars"); f != nil {
				return ex.CallFunction(fr, f, []Value{args[0]}, nil)
			}
		}
		if len(args) == 1 && args[0].IsConst() {
			switch name { // concrete arguments: the real function
			case "qescape":
				return StrC(url.QueryEscape(args[0].S))
			case "pescape":
				return StrC(url.PathEscape(args[0].S))
			}
		}
		return App(name, SStr, args...)
	}
	I[verifPkg+".UFBool"] = func(ex *Exec, fr *frame, fn *ssa.Function, a []Value) Value {
		name := constStr(a[0], "UF name")
		args := strSliceOf(a[1])
		if _, ok := UFs[name]; !ok {
			panic(Inconclusive{"unknown UF " + name})
		}
		return App(name, SBool, args...)
	}
	I[verifPkg+".FreshString"] = func(ex *Exec, fr *frame, fn *ssa.Function, a []Value) Value {
		label := constStr(a[0], "label")
		n := tstr(a[1])
		if n.IsConst() {
			v := ex.Fresh(fmt.Sprintf("fresh!%s!len%d", label, n.I.Int64()), SStr)
			ex.declareInput(v, v.S)
			return v
		}
		v := ex.Fresh("fresh!"+label, SStr)
		ex.declareInput(v, v.S)
		ex.addPC(Eq(StrLen(v), n))
		return v
	}
	I[verifPkg+".Note"] = func(ex *Exec, fr *frame, fn *ssa.Function, a []Value) Value {
		ex.Notes = appendUniq(ex.Notes, constStr(a[0], "note"))
		return nil
	}
	I[verifPkg+".Ite"] = func(ex *Exec, fr *frame, fn *ssa.Function, a []Value) Value {
		return Ite(tstr(a[0]), tstr(a[1]), tstr(a[2]))
	}
	I[verifPkg+".IteInt"] = I[verifPkg+".Ite"]
	I[verifPkg+".And"] = func(ex *Exec, fr *frame, fn *ssa.Function, a []Value) Value { return And(tstr(a[0]), tstr(a[1])) }
	I[verifPkg+".Or"] = func(ex *Exec, fr *frame, fn *ssa.Function, a []Value) Value { return Or(tstr(a[0]), tstr(a[1])) }
	I[verifPkg+".Implies"] = func(ex *Exec, fr *frame, fn *ssa.Function, a []Value) Value {
		return Implies(tstr(a[0]), tstr(a[1]))
	}
	I[verifPkg+".Not"] = func(ex *Exec, fr *frame, fn *ssa.Function, a []Value) Value { return Not(tstr(a[0])) }
	I[verifPkg+".StrEq"] = func(ex *Exec, fr *frame, fn *ssa.Function, a []Value) Value { return Eq(tstr(a[0]), tstr(a[1])) }
	I[verifPkg+".IntEq"] = func(ex *Exec, fr *frame, fn *ssa.Function, a []Value) Value { return Eq(tstr(a[0]), tstr(a[1])) }
	I[verifPkg+".Le"] = func(ex *Exec, fr *frame, fn *ssa.Function, a []Value) Value { return Le(tstr(a[0]), tstr(a[1])) }
	I[verifPkg+".Lt"] = func(ex *Exec, fr *frame, fn *ssa.Function, a []Value) Value { return Lt(tstr(a[0]), tstr(a[1])) }
	I[verifPkg+".Contains"] = func(ex *Exec, fr *frame, fn *ssa.Function, a []Value) Value {
		return StrContains(tstr(a[0]), tstr(a[1]))
	}
	I[verifPkg+".AllBytesIn"] = func(ex *Exec, fr *frame, fn *ssa.Function, a []Value) Value {
		return StrAllIn(tstr(a[0]), constStr(a[1], "AllBytesIn classes"))
	}
	I[verifPkg+".HasPrefix"] = func(ex *Exec, fr *frame, fn *ssa.Function, a []Value) Value {
		return StrPrefixOf(tstr(a[1]), tstr(a[0]))
	}

	// ---------------- strings / bytes
	I["strings.Contains"] = func(ex *Exec, fr *frame, fn *ssa.Function, a []Value) Value {
		return StrContains(tstr(a[0]), tstr(a[1]))
	}
	I["strings.HasPrefix"] = func(ex *Exec, fr *frame, fn *ssa.Function, a []Value) Value {
		return StrPrefixOf(tstr(a[1]), tstr(a[0]))
	}
	I["strings.HasSuffix"] = func(ex *Exec, fr *frame, fn *ssa.Function, a []Value) Value {
		return StrSuffixOf(tstr(a[1]), tstr(a[0]))
	}
	I["strings.Index"] = func(ex *Exec, fr *frame, fn *ssa.Function, a []Value) Value {
		return StrIndexOf(tstr(a[0]), tstr(a[1]), IntC(0))
	}
	I["strings.IndexByte"] = func(ex *Exec, fr *frame, fn *ssa.Function, a []Value) Value {
		return StrIndexOf(tstr(a[0]), StrFromByte(tstr(a[1])), IntC(0))
	}
	I["strings.ContainsRune"] = func(ex *Exec, fr *frame, fn *ssa.Function, a []Value) Value {
		r := tstr(a[1])
		if !r.IsConst() || r.I.Int64() >= 128 {
			panic(Inconclusive{"strings.ContainsRune with non-ASCII/symbolic rune"})
		}
		return StrContains(tstr(a[0]), StrFromByte(r))
	}
	I["strings.Join"] = func(ex *Exec, fr *frame, fn *ssa.Function, a []Value) Value {
		parts := strSliceOf(a[0])
		sep := tstr(a[1])
		var ts []*Term
		for i, p := range parts {
			if i > 0 {
				ts = append(ts, sep)
			}
			ts = append(ts, p)
		}
		return Concat(ts...)
	}
	I["strings.Split"] = func(ex *Exec, fr *frame, fn *ssa.Function, a []Value) Value {
		return newStrSlice(ex.split(tstr(a[0]), tstr(a[1]), -1))
	}
	I["strings.SplitN"] = func(ex *Exec, fr *frame, fn *ssa.Function, a []Value) Value {
		n := constInt(a[2], "SplitN n")
		if n == 0 {
			return (*SliceV)(nil)
		}
		return newStrSlice(ex.split(tstr(a[0]), tstr(a[1]), int(n)))
	}
	I["strings.ToLower"] = func(ex *Exec, fr *frame, fn *ssa.Function, a []Value) Value {
		s := tstr(a[0])
		if s.IsConst() {
			return StrC(strings.ToLower(s.S))
		}
		return App("tolower", SStr, s)
	}
	I["strings.TrimSpace"] = func(ex *Exec, fr *frame, fn *ssa.Function, a []Value) Value {
		s := tstr(a[0])
		if s.IsConst() {
			return StrC(strings.TrimSpace(s.S))
		}
		panic(Inconclusive{"strings.TrimSpace on symbolic string"})
	}
	I["strings.EqualFold"] = func(ex *Exec, fr *frame, fn *ssa.Function, a []Value) Value {
		s, t := tstr(a[0]), tstr(a[1])
		if s.IsConst() && t.IsConst() {
			return BoolC(strings.EqualFold(s.S, t.S))
		}
		panic(Inconclusive{"strings.EqualFold on symbolic string"})
	}
	I["strings.Repeat"] = func(ex *Exec, fr *frame, fn *ssa.Function, a []Value) Value {
		return StrC(strings.Repeat(constStr(a[0], "Repeat s"), int(constInt(a[1], "Repeat n"))))
	}
	I["strings.ReplaceAll"] = func(ex *Exec, fr *frame, fn *ssa.Function, a []Value) Value {
		return StrReplaceAll(tstr(a[0]), tstr(a[1]), tstr(a[2]))
	}
	I["bytes.IndexByte"] = func(ex *Exec, fr *frame, fn *ssa.Function, a []Value) Value {
		return StrIndexOf(bytesOf(a[0]), StrFromByte(tstr(a[1])), IntC(0))
	}
	I["bytes.Equal"] = func(ex *Exec, fr *frame, fn *ssa.Function, a []Value) Value {
		return Eq(bytesOf(a[0]), bytesOf(a[1]))
	}
	I["bytes.Replace"] = func(ex *Exec, fr *frame, fn *ssa.Function, a []Value) Value {
		n := constInt(a[3], "bytes.Replace n")
		if n >= 0 {
			panic(Inconclusive{"bytes.Replace with n >= 0"})
		}
		return newBytes(StrReplaceAll(bytesOf(a[0]), bytesOf(a[1]), bytesOf(a[2])))
	}
	I["crypto/subtle.ConstantTimeCompare"] = func(ex *Exec, fr *frame, fn *ssa.Function, a []Value) Value {
		return Ite(Eq(bytesOf(a[0]), bytesOf(a[1])), IntC(1), IntC(0))
	}
	I["crypto/subtle.ConstantTimeEq"] = func(ex *Exec, fr *frame, fn *ssa.Function, a []Value) Value {
		return Ite(Eq(tstr(a[0]), tstr(a[1])), IntC(1), IntC(0))
	}

	// ---------------- hashing, encoding, randomness
	I["crypto/sha512.Sum512"] = func(ex *Exec, fr *frame, fn *ssa.Function, a []Value) Value {
		return &ByteArr{S: App("sha512", SStr, bytesOf(a[0]))}
	}
	encKind := func(v Value) string {
		if c, ok := v.(*Poison); ok {
			if strings.HasSuffix(c.Name, "StdEncoding") {
				return "std"
			}
			if strings.HasSuffix(c.Name, "URLEncoding") {
				return "url"
			}
			panic(Inconclusive{"base64 encoding " + c.Name})
		}
		panic(Inconclusive{"base64 encoding object " + describe(v)})
	}
	I["(*encoding/base64.Encoding).EncodeToString"] = func(ex *Exec, fr *frame, fn *ssa.Function, a []Value) Value {
		return App("b64e_"+encKind(a[0]), SStr, bytesOf(a[1]))
	}
	I["(*encoding/base64.Encoding).EncodedLen"] = func(ex *Exec, fr *frame, fn *ssa.Function, a []Value) Value {
		return Mul(IntC(4), DivE(Add(tstr(a[1]), IntC(2)), IntC(3)))
	}
	I["(*encoding/base64.Encoding).Encode"] = func(ex *Exec, fr *frame, fn *ssa.Function, a []Value) Value {
		dst := a[1].(*ByteSlice)
		enc := App("b64e_"+encKind(a[0]), SStr, bytesOf(a[2]))
		n := StrLen(enc)
		if !ex.Decide(Le(n, dst.Len)) {
			ex.boundsPanic(fr, "base64 Encode dst")
		}
		dst.A.S = writeRegion(dst.A.S, dst.Off, n, enc)
		return nil
	}
	I["(*encoding/base64.Encoding).DecodeString"] = func(ex *Exec, fr *frame, fn *ssa.Function, a []Value) Value {
		k := encKind(a[0])
		s := tstr(a[1])
		if s.Op == "app" && s.S == "b64e_"+k {
			return Tuple{newBytes(s.Args[0]), nilError} // decode(encode(x)) = x
		}
		if ex.Decide(App("b64ok_"+k, SBool, s)) {
			return Tuple{newBytes(App("b64d_"+k, SStr, s)), nilError}
		}
		return Tuple{(*ByteSlice)(nil), ex.newError(StrC("illegal base64 data"))}
	}
	I["io.ReadFull"] = func(ex *Exec, fr *frame, fn *ssa.Function, a []Value) Value {
		if p, ok := a[0].(*Poison); !ok || !strings.HasSuffix(p.Name, "rand.Reader") {
			panic(Inconclusive{"io.ReadFull from " + describe(a[0])})
		}
		buf := a[1].(*ByteSlice)
		if buf == nil {
			return Tuple{IntC(0), nilError}
		}
		var v *Term
		if buf.Len.IsConst() {
			v = ex.Fresh(fmt.Sprintf("rand!len%d", buf.Len.I.Int64()), SStr)
			ex.declareInput(v, v.S)
		} else {
			v = ex.Fresh("rand", SStr)
			ex.declareInput(v, v.S)
			ex.addPC(Eq(StrLen(v), buf.Len))
		}
		buf.A.S = writeRegion(buf.A.S, buf.Off, buf.Len, v)
		return Tuple{buf.Len, nilError}
	}

	// ---------------- strconv
	I["strconv.Itoa"] = func(ex *Exec, fr *frame, fn *ssa.Function, a []Value) Value { return fmtInt(tstr(a[0])) }
	I["strconv.FormatInt"] = func(ex *Exec, fr *frame, fn *ssa.Function, a []Value) Value {
		if constInt(a[1], "FormatInt base") != 10 {
			panic(Inconclusive{"FormatInt base != 10"})
		}
		return fmtInt(tstr(a[0]))
	}
	I["strconv.ParseInt"] = func(ex *Exec, fr *frame, fn *ssa.Function, a []Value) Value {
		s := tstr(a[0])
		if constInt(a[1], "ParseInt base") != 10 {
			panic(Inconclusive{"ParseInt base != 10"})
		}
		// non-negative decimal without sign, or '-' followed by digits; '+' prefix and
		// underscores are treated as errors (ParseInt base 10 accepts '+': modelled)
		body := s
		neg := False
		if ex.Decide(Or(StrPrefixOf(StrC("-"), s), StrPrefixOf(StrC("+"), s))) {
			neg = StrPrefixOf(StrC("-"), s)
			body = SubstrIn(s, IntC(1), Sub(StrLen(s), IntC(1)))
		}
		v := StrToInt(body)
		max := new(big.Int).Lsh(big.NewInt(1), 63)
		okc := And(Ge(v, IntC(0)), Or(And(neg, Le(v, IntBig(max))), And(Not(neg), Lt(v, IntBig(max)))))
		if ex.Decide(okc) {
			return Tuple{Ite(neg, Neg(v), v), nilError}
		}
		return Tuple{IntC(0), ex.newError(Concat(StrC("strconv.ParseInt: parsing "), App("fmtq", SStr, s), StrC(": invalid syntax")))}
	}

	// ---------------- fmt / errors
	I["fmt.Sprintf"] = func(ex *Exec, fr *frame, fn *ssa.Function, a []Value) Value {
		return ex.sprintf(fr, tstr(a[0]), a[1])
	}
	I["fmt.Sprint"] = func(ex *Exec, fr *frame, fn *ssa.Function, a []Value) Value {
		var ts []*Term
		s, _ := a[0].(*SliceV)
		if s != nil {
			for i := 0; i < s.Len; i++ {
				ts = append(ts, ex.formatValue(fr, 'v', false, s.A.E[s.Off+i].V))
			}
		}
		return Concat(ts...)
	}
	I["fmt.Errorf"] = func(ex *Exec, fr *frame, fn *ssa.Function, a []Value) Value {
		return ex.newError(ex.sprintf(fr, tstr(a[0]), a[1]))
	}
	I["fmt.Fprintf"] = func(ex *Exec, fr *frame, fn *ssa.Function, a []Value) Value {
		s := ex.sprintf(fr, tstr(a[1]), a[2])
		w, _ := a[0].(*Iface)
		if w == nil {
			ex.goPanic(fr.fn.String(), "nil writer")
		}
		m := ex.P.Prog.LookupMethod(w.T, nil, "Write")
		if m == nil {
			panic(Inconclusive{"Fprintf: writer without Write"})
		}
		return ex.CallFunction(fr, m, []Value{w.V, newBytes(s)}, nil)
	}
	I["fmt.Fprint"] = func(ex *Exec, fr *frame, fn *ssa.Function, a []Value) Value {
		var ts []*Term
		s, _ := a[1].(*SliceV)
		if s != nil {
			for i := 0; i < s.Len; i++ {
				ts = append(ts, ex.formatValue(fr, 'v', false, s.A.E[s.Off+i].V))
			}
		}
		w := a[0].(*Iface)
		m := ex.P.Prog.LookupMethod(w.T, nil, "Write")
		return ex.CallFunction(fr, m, []Value{w.V, newBytes(Concat(ts...))}, nil)
	}
	I["io.WriteString"] = func(ex *Exec, fr *frame, fn *ssa.Function, a []Value) Value {
		w := a[0].(*Iface)
		m := ex.P.Prog.LookupMethod(w.T, nil, "Write")
		return ex.CallFunction(fr, m, []Value{w.V, newBytes(tstr(a[1]))}, nil)
	}

	registerTimeIntrinsics(p)
	registerExtras(p)
	registerReflect(p)
	registerLowLevel(p)
	registerThirdParty(p)
	registerRegex(p)
	registerTemplate(p)
	registerUnicode(p)
	registerShared(p)
	registerDefaultsBoundary(p)
	registerGoStubs(p)
}

func fmtInt(v *Term) *Term {
	if v.IsConst() {
		return StrC(v.I.String())
	}
	if v.lo != nil && v.lo.Sign() >= 0 {
		return StrFromInt(v)
	}
	return Ite(Lt(v, IntC(0)), Concat(StrC("-"), StrFromInt(Neg(v))), StrFromInt(v))
}

// split implements strings.Split/SplitN for a non-empty separator, forking on the number of pieces.
func (ex *Exec) split(s, sep *Term, n int) []*Term {
	s = ex.resolveIte(s)
	if s.IsConst() && sep.IsConst() {
		var parts []string
		if n < 0 {
			parts = strings.Split(s.S, sep.S)
		} else {
			parts = strings.SplitN(s.S, sep.S, n)
		}
		var ts []*Term
		for _, p := range parts {
			ts = append(ts, StrC(p))
		}
		return ts
	}
	if !sep.IsConst() || sep.S == "" {
		panic(Inconclusive{"strings.Split with symbolic or empty separator"})
	}
	var out []*Term
	rest := s
	sl := IntC(int64(len(sep.S)))
	for i := 0; ; i++ {
		if n > 0 && len(out) == n-1 {
			break
		}
		if i > 256 {
			panic(Inconclusive{"strings.Split: more than 256 pieces"})
		}
		idx := StrIndexOf(rest, sep, IntC(0))
		if ex.Decide(Lt(idx, IntC(0))) {
			break
		}
		out = append(out, SubstrIn(rest, IntC(0), idx))
		st := Add(idx, sl)
		rest = SubstrIn(rest, st, Sub(StrLen(rest), st))
	}
	return append(out, rest)
}

// sprintf: a mini formatter producing concatenation terms.
func (ex *Exec) sprintf(fr *frame, format *Term, args Value) *Term {
	if !format.IsConst() {
		panic(Inconclusive{"Sprintf with symbolic format"})
	}
	var vals []Value
	if s, _ := args.(*SliceV); s != nil {
		for i := 0; i < s.Len; i++ {
			vals = append(vals, s.A.E[s.Off+i].V)
		}
	}
	f := format.S
	var out []*Term
	ai := 0
	for i := 0; i < len(f); i++ {
		c := f[i]
		if c != '%' {
			j := i
			for j < len(f) && f[j] != '%' {
				j++
			}
			out = append(out, StrC(f[i:j]))
			i = j - 1
			continue
		}
		i++
		if i >= len(f) {
			out = append(out, StrC("%!(NOVERB)"))
			break
		}
		plus := false
		for i < len(f) && (f[i] == '+' || f[i] == '#' || f[i] == '-' || f[i] == ' ' || f[i] == '0' || (f[i] >= '1' && f[i] <= '9') || f[i] == '.') {
			if f[i] == '+' {
				plus = true
			}
			if f[i] != '+' && f[i] != '#' {
				panic(Inconclusive{"Sprintf width/precision flags: " + f})
			}
			i++
		}
		verb := f[i]
		if verb == '%' {
			out = append(out, StrC("%"))
			continue
		}
		if ai >= len(vals) {
			out = append(out, StrC("%!"+string(verb)+"(MISSING)"))
			continue
		}
		out = append(out, ex.formatValue(fr, verb, plus, vals[ai]))
		ai++
	}
	if ai < len(vals) {
		out = append(out, StrC("%!(EXTRA)"))
	}
	return Concat(out...)
}

func (ex *Exec) formatValue(fr *frame, verb byte, plus bool, v Value) *Term {
	iv, _ := v.(*Iface)
	if iv == nil {
		if verb == 'T' {
			return StrC("<nil>")
		}
		return StrC("<nil>")
	}
	if verb == 'T' {
		return StrC(iv.T.String())
	}
	// error / Stringer
	if verb == 's' || verb == 'v' || verb == 'q' {
		for _, mname := range []string{"Error", "String"} {
			ms := ex.P.Prog.MethodSets.MethodSet(iv.T)
			if sel := ms.Lookup(nil, mname); sel != nil {
				sig := sel.Type().(*types.Signature)
				if sig.Params().Len() == 0 && sig.Results().Len() == 1 && isStringType(sig.Results().At(0).Type()) {
					m := ex.P.Prog.MethodValue(sel)
					if m != nil {
						if c, ok := iv.V.(*Cell); ok && c == nil {
							return StrC("<nil>")
						}
						r := ex.CallFunction(fr, m, []Value{iv.V}, nil).(*Term)
						if verb == 'q' {
							return App("fmtq", SStr, r)
						}
						return r
					}
				}
			}
		}
	}
	switch x := iv.V.(type) {
	case *Term:
		switch x.Sort {
		case SStr:
			switch verb {
			case 'q':
				return App("fmtq", SStr, x)
			case 'x':
				return App("fmtx", SStr, x)
			}
			return x
		case SInt:
			if isNamed(iv.T, "time", "Time") {
				return App("rfc3339", SStr, DivE(x, IntC(1000000000)))
			}
			return fmtInt(x)
		case SBool:
			return Ite(x, StrC("true"), StrC("false"))
		}
	case *ByteSlice:
		if verb == 's' {
			return bytesOf(x)
		}
		if verb == 'x' {
			return App("fmtx", SStr, bytesOf(x))
		}
	}
	// anything else: an opaque rendering that depends only on the type
	return StrC("‹" + iv.T.String() + "›")
}

package sym

// extras.go: tier bounds, known-finding regions, witnesses, static label scan, pinned replay.

import (
	"fmt"
	"golang.org/x/tools/go/ssa/ssautil"
	"os"
	"go/constant"
	"math/big"
	"strconv"
	"strings"
	"sync"

	"golang.org/x/tools/go/ssa"
)

var (
	Tier           = "quick"
	ActiveKnown    = map[string]bool{}
	NoNativeReplay = map[string]bool{}
	nnrMu          sync.Mutex
)

type WitnessRec struct {
	Label string
	Model map[string]string
}

type knownRegion struct {
	id   string
	cond *Term
}

func registerExtras(p *Program) {
	I := p.Intrinsic
	I[verifPkg+".Bound"] = func(ex *Exec, fr *frame, fn *ssa.Function, a []Value) Value {
		if Tier == "thorough" {
			return a[1]
		}
		return a[0]
	}
	I[verifPkg+".Time"] = func(ex *Exec, fr *frame, fn *ssa.Function, a []Value) Value {
		label := constStr(a[0], "verif.Time label")
		v := ex.FreshIntRange("in!"+label, year1Ns, year9999Ns)
		ex.declareInput(v, v.S[3:])
		return v
	}
	I[verifPkg+".Param"] = func(ex *Exec, fr *frame, fn *ssa.Function, a []Value) Value {
		return StrC(os.Getenv("GOSYM_PARAM_" + constStr(a[0], "Param name")))
	}
	I[verifPkg+".ResetLabels"] = func(ex *Exec, fr *frame, fn *ssa.Function, a []Value) Value {
		// the next inputs get the same names (hence are the same symbols) as the first ones:
		// used to build two worlds from one symbolic pre-state for two-run (relational) checks
		for k := range ex.counters {
			if !strings.HasPrefix(k, "choice!") {
				delete(ex.counters, k)
			}
		}
		ex.lastNow = nil
		ex.nowCount = 0
		return nil
	}
	I[verifPkg+".Exposes"] = func(ex *Exec, fr *frame, fn *ssa.Function, a []Value) Value {
		// structural (Dolev-Yao) exposure: some input symbol of the secret occurs in the sink
		// outside every one-way hash application
		sink, secret := tstr(a[0]), tstr(a[1])
		svars := map[int]bool{}
		Walk(secret, map[int]bool{}, func(x *Term) {
			if x.Op == "var" {
				svars[x.ID] = true
			}
		})
		if len(a) > 2 {
			// the public part of the secret (e.g. the account identifier inside a remember cookie)
			Walk(tstr(a[2]), map[int]bool{}, func(x *Term) {
				if x.Op == "var" {
					delete(svars, x.ID)
				}
			})
		}
		if len(svars) == 0 {
			if secret.IsConst() && secret.S != "" && sink.IsConst() {
				return BoolC(strings.Contains(sink.S, secret.S))
			}
			return False
		}
		found := false
		var visit func(x *Term)
		seen := map[int]bool{}
		visit = func(x *Term) {
			if found || seen[x.ID] {
				return
			}
			seen[x.ID] = true
			if x.Op == "app" && (x.S == "sha512" || x.S == "ideal_hash") {
				return // one-way
			}
			if x.Op == "str.len" {
				return // only the length: not a disclosure of the value
			}
			if x.Op == "var" && svars[x.ID] {
				found = true
				return
			}
			for _, c := range x.Args {
				visit(c)
			}
		}
		visit(sink)
		return BoolC(found)
	}
	I[verifPkg+".NoSummary"] = func(ex *Exec, fr *frame, fn *ssa.Function, a []Value) Value {
		// run one summarised library function from its real body (suffix match on the name)
		suffix := constStr(a[0], "NoSummary name")
		hit := false
		for name := range ex.P.Summary {
			if strings.HasSuffix(name, suffix) {
				ex.noSummaryFor[name] = true
				hit = true
			}
		}
		if !hit {
			panic(Inconclusive{"NoSummary: no summary matches " + suffix})
		}
		return nil
	}
	I[verifPkg+".ExposesBeyond"] = I[verifPkg+".Exposes"]
	I[verifPkg+".NoSummaries"] = func(ex *Exec, fr *frame, fn *ssa.Function, a []Value) Value {
		ex.noSummary = true
		return nil
	}
	I[verifPkg+".Thorough"] = func(ex *Exec, fr *frame, fn *ssa.Function, a []Value) Value {
		return BoolC(Tier == "thorough")
	}
	I[verifPkg+".KnownRegion"] = func(ex *Exec, fr *frame, fn *ssa.Function, a []Value) Value {
		id := constStr(a[0], "KnownRegion id")
		ex.known = append(ex.known, knownRegion{id: id, cond: tstr(a[1])})
		return nil
	}
	I[verifPkg+".ClearKnownRegions"] = func(ex *Exec, fr *frame, fn *ssa.Function, a []Value) Value {
		ex.known = nil
		return nil
	}
	I[verifPkg+".ReplayInInterpreter"] = func(ex *Exec, fr *frame, fn *ssa.Function, a []Value) Value {
		nnrMu.Lock()
		NoNativeReplay[ex.entry] = true
		nnrMu.Unlock()
		return nil
	}
	I[verifPkg+".Witness"] = func(ex *Exec, fr *frame, fn *ssa.Function, a []Value) Value {
		label := constStr(a[1], "Witness label")
		r, m := ex.Check([]*Term{tstr(a[0])}, ex.Inputs)
		if r == Sat {
			ex.Reached["witness:"+label]++
			model := map[string]string{}
			for _, in := range ex.Inputs {
				model[ex.InputLbl[in.ID]] = m[in.ID]
			}
			ex.Witnesses = append(ex.Witnesses, WitnessRec{Label: label, Model: model})
		}
		return nil
	}
}

// StaticLabels returns [kind,label] pairs of verif.Assert/Witness/Reach calls with constant
// labels in the entry function and the harness functions it (transitively, statically) calls.
func (p *Program) StaticLabels(entry string) [][2]string {
	fn := p.Root.Func(entry)
	if fn == nil {
		return nil
	}
	seen := map[*ssa.Function]bool{}
	var out [][2]string
	dedupe := map[[2]string]bool{}
	var visit func(f *ssa.Function)
	visit = func(f *ssa.Function) {
		if seen[f] || f.Blocks == nil {
			return
		}
		seen[f] = true
		for _, af := range f.AnonFuncs {
			visit(af)
		}
		for _, b := range f.Blocks {
			for _, in := range b.Instrs {
				c, ok := in.(*ssa.Call)
				if !ok {
					continue
				}
				callee := c.Call.StaticCallee()
				if callee == nil || callee.Pkg == nil {
					continue
				}
				pp := callee.Pkg.Pkg.Path()
				if pp == verifPkg {
					kind := callee.Name()
					idx := -1
					switch kind {
					case "Assert", "Witness":
						idx = 1
					case "Reach":
						idx = 0
					}
					if idx >= 0 && idx < len(c.Call.Args) {
						if k, ok := c.Call.Args[idx].(*ssa.Const); ok && k.Value != nil && k.Value.Kind() == constant.String {
							e := [2]string{kind, constant.StringVal(k.Value)}
							if !dedupe[e] {
								dedupe[e] = true
								out = append(out, e)
							}
						}
					}
					continue
				}
				if pp == HarnessMod || strings.HasPrefix(pp, HarnessMod+"/") {
					if pp == p.Root.Pkg.Path() {
						visit(callee)
					}
				}
			}
		}
	}
	visit(fn)
	return out
}

// ReplayConcrete re-executes the entry with every input pinned to the model's value and reports
// whether the same assertion fails (or the same panic occurs). Decisions that the pinned inputs
// do not determine (uninterpreted environment predicates) are explored, up to 256 paths.
func (p *Program) ReplayConcrete(v Violation) bool {
	fn := p.Root.Func(v.Entry)
	if fn == nil {
		return false
	}
	s, err := NewSolver("cvc5", 20000, false)
	if err != nil {
		return false
	}
	defer s.Close()
	work := [][]int{{}}
	for n := 0; len(work) > 0 && n < 256; n++ {
		prefix := work[len(work)-1]
		work = work[:len(work)-1]
		ex := NewExec(p, s, prefix)
		ex.entry = v.Entry
		ex.pin = v.Model
		res, viol := p.runPath(ex, fn)
		if os.Getenv("GOSYM_REPLAY_DEBUG") != "" {
			fmt.Fprintf(os.Stderr, "replay path prefix=%v outcome=%+v violations=%d forks=%d\n", prefix, res, len(viol), len(ex.forks))
			for _, x := range viol {
				fmt.Fprintf(os.Stderr, "  violated: %q\n", x.Label)
			}
		}
		for _, x := range viol {
			if x.Label == v.Label {
				return true
			}
		}
		work = append(work, ex.forks...)
	}
	return false
}

// pinned returns the constant for an input label if this run is pinned.
func (ex *Exec) pinned(v *Term, label string) {
	if ex.pin == nil {
		return
	}
	val, ok := ex.pin[label]
	if !ok {
		return
	}
	switch v.Sort {
	case SStr:
		ex.addPC(Eq(v, StrC(val)))
	case SInt:
		b, ok := new(big.Int).SetString(val, 10)
		if ok {
			ex.addPC(Eq(v, IntBig(b)))
		}
	case SBool:
		bv, _ := strconv.ParseBool(val)
		ex.addPC(Eq(v, BoolC(bv)))
	}
}

// declareInput registers v as a model-visible input under label.
func (ex *Exec) declareInput(v *Term, label string) {
	ex.Inputs = append(ex.Inputs, v)
	ex.InputLbl[v.ID] = label
	ex.pinned(v, label)
}

func allFunctions(p *Program) map[*ssa.Function]bool {
	return ssautilAllFunctions(p.Prog)
}

func registerShared(p *Program) {
	I := p.Intrinsic
	I[verifPkg+".MarkShared"] = func(ex *Exec, fr *frame, fn *ssa.Function, a []Value) Value {
		var roots []Value
		if s, _ := a[0].(*SliceV); s != nil {
			for i := 0; i < s.Len; i++ {
				roots = append(roots, s.A.E[s.Off+i].V)
			}
		}
		ex.markShared(roots)
		return nil
	}
	I[verifPkg+".SharedWrites"] = func(ex *Exec, fr *frame, fn *ssa.Function, a []Value) Value {
		label := constStr(a[0], "SharedWrites label")
		if ex.shared == nil {
			return IntC(0)
		}
		for _, w := range ex.shared.writes {
			ex.Asserts = append(ex.Asserts, AssertResult{Label: label + ": " + w, Holds: false, Result: Sat, Model: ex.model()})
		}
		return IntC(int64(len(ex.shared.writes)))
	}
	I[verifPkg+".SyncCensus"] = func(ex *Exec, fr *frame, fn *ssa.Function, a []Value) Value {
		c := ex.P.syncCensus()
		if len(c) > 0 {
			panic(Inconclusive{"library code uses synchronisation; the access-set argument for data-race freedom does not apply: " + strings.Join(c, "; ")})
		}
		return nil
	}
}

func ssautilAllFunctions(prog *ssa.Program) map[*ssa.Function]bool { return ssautil.AllFunctions(prog) }

package sym

// shared.go: the access-set analysis behind C20 (DESIGN.md 4.20). After setup the harness marks
// every heap location reachable from the instance and the package globals as shared
// (Init-epoch). While a request runs, every write to a shared location is recorded and
// attributed to the innermost library function on the call stack; writes made by the world
// model's own components (user-supplied, goroutine-safe by contract) are exempt.

import (
	"fmt"
	"os"
	"go/types"
	"strings"

	"golang.org/x/tools/go/ssa"
)

type sharedState struct {
	on    bool
	cells map[*Cell]bool
	maps  map[*Map]bool
	arrs  map[*Array]bool
	bytes map[*ByteArr]bool
	objs  map[*Opaque]bool
	// writes: site descriptions (deduplicated)
	writes []string
}

func (ex *Exec) markShared(roots []Value) {
	if ex.shared == nil {
		ex.shared = &sharedState{cells: map[*Cell]bool{}, maps: map[*Map]bool{}, arrs: map[*Array]bool{}, bytes: map[*ByteArr]bool{}, objs: map[*Opaque]bool{}}
	}
	sh := ex.shared
	var visit func(v Value)
	visit = func(v Value) {
		switch x := v.(type) {
		case *Cell:
			if x == nil || sh.cells[x] {
				return
			}
			sh.cells[x] = true
			visit(x.V)
		case *Struct:
			for _, f := range x.F {
				visit(f)
			}
		case *Array:
			if x == nil || sh.arrs[x] {
				return
			}
			sh.arrs[x] = true
			for _, e := range x.E {
				visit(e)
			}
		case *ByteArr:
			sh.bytes[x] = true
		case *SliceV:
			if x != nil {
				visit(x.A)
			}
		case *ByteSlice:
			if x != nil {
				visit(x.A)
			}
		case *Map:
			if x == nil || sh.maps[x] {
				return
			}
			sh.maps[x] = true
			for i := range x.Keys {
				visit(x.Keys[i])
				visit(x.Vals[i])
			}
		case *Iface:
			if x != nil {
				visit(x.V)
			}
		case *Closure:
			if x != nil {
				for _, e := range x.Env {
					visit(e)
				}
			}
		case *Opaque:
			if x != nil {
				sh.objs[x] = true
			}
		case Tuple:
			for _, e := range x {
				visit(e)
			}
		}
	}
	for _, c := range ex.globals {
		visit(c)
	}
	for _, r := range roots {
		visit(r)
	}
	sh.on = true
}

// markSharedValues adds the heap reachable from vals to the current shared set.
func (ex *Exec) markSharedValues(vals []Value) { ex.markShared(vals) }

// responsible returns the innermost library function on the stack, or "" if the write is made
// by a world-model component or the harness itself.
func responsible(fr *frame) string {
	for f := fr; f != nil; f = f.caller {
		if f.fn == nil || f.fn.Pkg == nil {
			// synthetic wrappers / bound methods: look at the enclosing declaration
			if f.fn != nil && f.fn.Synthetic != "" {
				continue
			}
			continue
		}
		p := f.fn.Pkg.Pkg.Path()
		switch {
		case strings.HasPrefix(p, HarnessMod+"/stubs"), p == verifPkg:
			continue // model of a standard-library function: transparent
		case strings.HasPrefix(p, HarnessMod):
			return "" // world model / harness
		case strings.HasPrefix(p, AuthbossMod):
			return f.fn.String()
		default:
			continue // interpreted standard-library code
		}
	}
	return ""
}

func (ex *Exec) noteSharedWrite(fr *frame, what string) {
	who := responsible(fr)
	if who == "" {
		return
	}
	if ex.locksHeld > 0 {
		// inside a critical section of a mutex that itself outlives the request: accesses are
		// ordered by the lock (lockset discipline; see DESIGN.md 4.20)
		ex.Notes = appendUniq(ex.Notes, "write under a held mutex not counted as a race: "+who+" writes "+what)
		return
	}
	if os.Getenv("GOSYM_DEBUG_SHARED") != "" {
		fmt.Fprintf(os.Stderr, "shared write: %s | stack: %s\n", what, callerChain(fr))
	}
	if ex.inGo > 0 {
		what += " (from a goroutine the library started, concurrently with the request goroutine)"
	}
	ex.shared.writes = appendUniq(ex.shared.writes, who+" writes "+what)
}

func (ex *Exec) sharedCellWrite(fr *frame, c *Cell) {
	if ex.shared != nil && ex.shared.on && ex.shared.cells[c] && !ex.harnessGlobals[c] {
		ex.noteSharedWrite(fr, "a location that outlives the request")
	}
}

func (ex *Exec) sharedMapWrite(fr *frame, m *Map) {
	if ex.shared != nil && ex.shared.on && ex.shared.maps[m] {
		ex.noteSharedWrite(fr, fmt.Sprintf("a map that outlives the request (map[%s]%s)", m.KT, m.VT))
	}
}

func (ex *Exec) sharedBytesWrite(fr *frame, b *ByteArr) {
	if ex.shared != nil && ex.shared.on && ex.shared.bytes[b] {
		ex.noteSharedWrite(fr, "a byte array that outlives the request")
	}
}

func (ex *Exec) sharedObjWrite(fr *frame, o *Opaque, what string) {
	if ex.shared != nil && ex.shared.on && ex.shared.objs[o] {
		ex.noteSharedWrite(fr, what)
	}
}

// syncCensus: library code must not use synchronisation (the access-set argument depends on
// happens-before between requests being empty).
func (p *Program) syncCensus() []string {
	var found []string
	for fn := range allFunctions(p) {
		if fn.Pkg == nil || !strings.HasPrefix(fn.Pkg.Pkg.Path(), AuthbossMod) || strings.HasPrefix(fn.Pkg.Pkg.Path(), AuthbossMod+"/mocks") {
			continue
		}
		for _, b := range fn.Blocks {
			for _, in := range b.Instrs {
				switch x := in.(type) {
				case *ssa.Send, *ssa.Select, *ssa.MakeChan:
					found = appendUniq(found, fn.String()+": channel operation")
				case *ssa.UnOp:
					if _, ok := x.X.Type().Underlying().(*types.Chan); ok {
						found = appendUniq(found, fn.String()+": channel receive")
					}
				case *ssa.Defer:
					if c := x.Call.StaticCallee(); c != nil && c.Pkg != nil {
						pp := c.Pkg.Pkg.Path()
						if (pp == "sync" || pp == "sync/atomic") && !modelledSync[c.String()] {
							found = appendUniq(found, fn.String()+": deferred call to "+c.String())
						}
					}
				case *ssa.Call:
					if c := x.Call.StaticCallee(); c != nil && c.Pkg != nil {
						pp := c.Pkg.Pkg.Path()
						if pp == "sync" || pp == "sync/atomic" {
							if modelledSync[c.String()] || c.Name() == "init" {
								continue // modelled: critical sections of package-level mutexes
							}
							found = appendUniq(found, fn.String()+": call to "+c.String())
						}
					}
				}
			}
		}
	}
	return found
}

// modelledSync: the synchronisation the access-set analysis understands. Lock/Unlock of a
// shared (RW)Mutex delimit an exclusive critical section; RLock/RUnlock exclude writers only, so
// a write made while holding just the read lock is still unordered with respect to the other
// readers and is reported like an unprotected one.
var modelledSync = map[string]bool{
	"(*sync.Mutex).Lock": true, "(*sync.Mutex).Unlock": true,
	"(*sync.RWMutex).Lock": true, "(*sync.RWMutex).Unlock": true,
	"(*sync.RWMutex).RLock": true, "(*sync.RWMutex).RUnlock": true,
}

type muxObj struct {
	patterns []string
	handlers []Value
}

func registerDefaultsBoundary(p *Program) {
	I := p.Intrinsic
	I["net/http.NewServeMux"] = func(ex *Exec, fr *frame, fn *ssa.Function, a []Value) Value {
		return &Cell{V: &Opaque{Kind: "servemux", Data: &muxObj{}}}
	}
	I["(*net/http.ServeMux).Handle"] = func(ex *Exec, fr *frame, fn *ssa.Function, a []Value) Value {
		o := a[0].(*Cell).V.(*Opaque)
		ex.sharedObjWrite(fr, o, "the route table of an http.ServeMux that outlives the request")
		m := o.Data.(*muxObj)
		m.patterns = append(m.patterns, constStr(a[1], "ServeMux pattern"))
		m.handlers = append(m.handlers, a[2])
		return nil
	}
	I["(*net/http.ServeMux).ServeHTTP"] = func(ex *Exec, fr *frame, fn *ssa.Function, a []Value) Value {
		m := a[0].(*Cell).V.(*Opaque).Data.(*muxObj)
		req := a[2].(*Cell)
		rt := fn.Signature.Params().At(1).Type().(*types.Pointer).Elem()
		u := req.V.(*Struct).F[fieldIndex(rt, "URL")].V.(*Cell)
		ut := rt.Underlying().(*types.Struct).Field(fieldIndex(rt, "URL")).Type().(*types.Pointer).Elem()
		path := u.V.(*Struct).F[fieldIndex(ut, "Path")].V.(*Term)
		var h Value
		for i, pat := range m.patterns {
			if pat != "/" && ex.Decide(Eq(path, StrC(pat))) {
				h = m.handlers[i]
				break
			}
		}
		if h == nil {
			for i, pat := range m.patterns {
				if pat == "/" {
					h = m.handlers[i]
				}
			}
		}
		hi, _ := h.(*Iface)
		if hi == nil {
			panic(Inconclusive{"ServeMux: no handler"})
		}
		sm := ex.P.Prog.LookupMethod(hi.T, nil, "ServeHTTP")
		ex.CallFunction(fr, sm, []Value{hi.V, a[1], a[2]}, nil)
		return nil
	}
	I["(*os.File).Write"] = func(ex *Exec, fr *frame, fn *ssa.Function, a []Value) Value {
		// *os.File is safe for concurrent use (package os documentation)
		return Tuple{StrLen(bytesOf(a[1])), nilError}
	}
	I["math/rand.NewSource"] = func(ex *Exec, fr *frame, fn *ssa.Function, a []Value) Value {
		return &Iface{T: types.Typ[types.Int64], V: &Opaque{Kind: "randsource"}}
	}
	I["math/rand.New"] = func(ex *Exec, fr *frame, fn *ssa.Function, a []Value) Value {
		return &Cell{V: &Opaque{Kind: "rand.Rand"}}
	}
	I["(*math/rand.Rand).Int"] = func(ex *Exec, fr *frame, fn *ssa.Function, a []Value) Value {
		c := a[0].(*Cell)
		if o, ok := c.V.(*Opaque); ok {
			ex.sharedObjWrite(fr, o, "the state of a *math/rand.Rand that outlives the request (not safe for concurrent use)")
		}
		v := ex.FreshIntRange("randint", IntC(0).I, maxDur.I)
		return v
	}
	I["math/rand.Int"] = func(ex *Exec, fr *frame, fn *ssa.Function, a []Value) Value {
		// the package-level generator is safe for concurrent use
		return ex.FreshIntRange("randint", IntC(0).I, maxDur.I)
	}
	I["(*sync.Mutex).Lock"] = func(ex *Exec, fr *frame, fn *ssa.Function, a []Value) Value {
		if c, _ := a[0].(*Cell); c != nil && (ex.shared == nil || !ex.shared.on || ex.shared.cells[c]) {
			ex.locksHeld++ // only a mutex shared between the goroutines orders their accesses
		}
		return nil
	}
	I["(*sync.Mutex).Unlock"] = func(ex *Exec, fr *frame, fn *ssa.Function, a []Value) Value {
		if c, _ := a[0].(*Cell); c != nil && (ex.shared == nil || !ex.shared.on || ex.shared.cells[c]) && ex.locksHeld > 0 {
			ex.locksHeld--
		}
		return nil
	}
	I["(*sync.RWMutex).Lock"] = I["(*sync.Mutex).Lock"]
	I["(*sync.RWMutex).Unlock"] = I["(*sync.Mutex).Unlock"]
	I["(*sync.RWMutex).RLock"] = func(ex *Exec, fr *frame, fn *ssa.Function, a []Value) Value { return nil }
	I["(*sync.RWMutex).RUnlock"] = func(ex *Exec, fr *frame, fn *ssa.Function, a []Value) Value { return nil }
	I["net/smtp.SendMail"] = func(ex *Exec, fr *frame, fn *ssa.Function, a []Value) Value { return nilError }
}

// enterGoroutine marks the heap reachable from a new goroutine's function value and arguments
// as shared for the duration of the goroutine's (synchronous) execution.
func (ex *Exec) enterGoroutine(fnv Value, args []Value) func() {
	if ex.shared == nil || !ex.shared.on {
		return func() {}
	}
	old := ex.shared
	ns := &sharedState{on: true, cells: map[*Cell]bool{}, maps: map[*Map]bool{}, arrs: map[*Array]bool{}, bytes: map[*ByteArr]bool{}, objs: map[*Opaque]bool{}, writes: old.writes}
	for k := range old.cells {
		ns.cells[k] = true
	}
	for k := range old.maps {
		ns.maps[k] = true
	}
	for k := range old.arrs {
		ns.arrs[k] = true
	}
	for k := range old.bytes {
		ns.bytes[k] = true
	}
	for k := range old.objs {
		ns.objs[k] = true
	}
	ex.shared = ns
	ex.markSharedValues(append([]Value{fnv}, args...))
	ex.inGo++
	return func() {
		ex.inGo--
		old.writes = ns.writes
		ex.shared = old
	}
}

package sym

// values.go: run-time values of the symbolic interpreter.

import (
	"fmt"
	"go/types"
	"math/big"

	"golang.org/x/tools/go/ssa"
)

// Value is one of:
//   *Term                 bool / integer / string scalar (possibly symbolic)
//   float64               concrete floating point
//   *Cell                 pointer to a storage cell (nil pointer = (*Cell)(nil))
//   *BytePtr              pointer to one element of a byte array
//   *Struct               struct value (fields are cells; copied on load/store)
//   *Array                non-byte array value
//   *ByteArr              byte array value / backing store of a []byte
//   *SliceV               non-byte slice
//   *ByteSlice            []byte
//   *Map                  map (nil map = (*Map)(nil))
//   *Iface                non-nil interface value (nil interface = (*Iface)(nil))
//   *Closure              function value (nil func = (*Closure)(nil))
//   *ssa.Builtin          builtin used as a value (call position only)
//   Tuple                 multiple results
//   *Poison               value of an uninitialised foreign global
//   *Opaque               engine-level object (iterator, etc.)
type Value interface{}

type Cell struct{ V Value }

type BytePtr struct {
	A   *ByteArr
	Idx *Term
}

type Struct struct{ F []*Cell }

type Array struct{ E []*Cell }

// ByteArr holds the content of a byte array as one String term; len = StrLen(S).
type ByteArr struct{ S *Term }

type SliceV struct {
	A             *Array
	Off, Len, Cap int
}

type ByteSlice struct {
	A             *ByteArr
	Off, Len, Cap *Term
}

type Map struct {
	Keys []Value
	Vals []Value
	KT   types.Type
	VT   types.Type
}

type Iface struct {
	T types.Type
	V Value
}

type Closure struct {
	Fn  *ssa.Function
	Env []Value
}

type Tuple []Value

type Poison struct{ Name string }

type Opaque struct {
	Kind string
	Data interface{}
}

// zeroTimeNs: time.Time{} as nanoseconds relative to the Unix epoch.
var zeroTimeNs = new(big.Int).Mul(big.NewInt(-62135596800), big.NewInt(1000000000))

func isNamed(t types.Type, pkg, name string) bool {
	n, ok := t.(*types.Named)
	if !ok {
		return false
	}
	o := n.Obj()
	return o.Name() == name && o.Pkg() != nil && o.Pkg().Path() == pkg
}

func isByteType(t types.Type) bool {
	b, ok := t.Underlying().(*types.Basic)
	return ok && b.Kind() == types.Uint8
}

// zero returns the zero value of type t.
func zero(t types.Type) Value {
	if isNamed(t, "time", "Time") {
		return IntBig(zeroTimeNs)
	}
	switch u := t.Underlying().(type) {
	case *types.Basic:
		switch {
		case u.Info()&types.IsBoolean != 0:
			return False
		case u.Info()&types.IsInteger != 0:
			return IntC(0)
		case u.Info()&types.IsString != 0:
			return StrC("")
		case u.Info()&types.IsFloat != 0:
			return float64(0)
		case u.Kind() == types.UnsafePointer:
			return (*Cell)(nil)
		case u.Kind() == types.UntypedNil:
			return (*Iface)(nil)
		}
		panic(Inconclusive{"zero of basic type " + u.String()})
	case *types.Pointer:
		return (*Cell)(nil)
	case *types.Struct:
		s := &Struct{F: make([]*Cell, u.NumFields())}
		for i := range s.F {
			s.F[i] = &Cell{V: zero(u.Field(i).Type())}
		}
		return s
	case *types.Array:
		if isByteType(u.Elem()) {
			return &ByteArr{S: Zeros(IntC(u.Len()))}
		}
		a := &Array{E: make([]*Cell, u.Len())}
		for i := range a.E {
			a.E[i] = &Cell{V: zero(u.Elem())}
		}
		return a
	case *types.Slice:
		if isByteType(u.Elem()) {
			return (*ByteSlice)(nil)
		}
		return (*SliceV)(nil)
	case *types.Map:
		return (*Map)(nil)
	case *types.Interface:
		return (*Iface)(nil)
	case *types.Signature:
		return (*Closure)(nil)
	case *types.Chan:
		return (*Opaque)(nil)
	case *types.Tuple:
		tp := make(Tuple, u.Len())
		for i := range tp {
			tp[i] = zero(u.At(i).Type())
		}
		return tp
	}
	panic(Inconclusive{fmt.Sprintf("zero of type %s", t)})
}

// copyVal returns a deep copy of aggregate values (struct/array); other values are shared.
func copyVal(v Value) Value {
	switch x := v.(type) {
	case *Struct:
		n := &Struct{F: make([]*Cell, len(x.F))}
		for i, c := range x.F {
			n.F[i] = &Cell{V: copyVal(c.V)}
		}
		return n
	case *Array:
		n := &Array{E: make([]*Cell, len(x.E))}
		for i, c := range x.E {
			n.E[i] = &Cell{V: copyVal(c.V)}
		}
		return n
	case *ByteArr:
		return &ByteArr{S: x.S}
	case Tuple:
		n := make(Tuple, len(x))
		for i := range x {
			n[i] = copyVal(x[i])
		}
		return n
	}
	return v
}

// storeInto writes v into cell c preserving the identity of nested field cells.
func storeInto(c *Cell, v Value) {
	switch x := v.(type) {
	case *Struct:
		if old, ok := c.V.(*Struct); ok && len(old.F) == len(x.F) {
			for i := range x.F {
				storeInto(old.F[i], x.F[i].V)
			}
			return
		}
		c.V = copyVal(v)
	case *Array:
		if old, ok := c.V.(*Array); ok && len(old.E) == len(x.E) {
			for i := range x.E {
				storeInto(old.E[i], x.E[i].V)
			}
			return
		}
		c.V = copyVal(v)
	case *ByteArr:
		if old, ok := c.V.(*ByteArr); ok {
			old.S = x.S
			return
		}
		c.V = copyVal(v)
	default:
		c.V = v
	}
}

// Inconclusive aborts the whole run: unsupported construct, unwind bound, solver trouble.
type Inconclusive struct{ Msg string }

// GoPanic is a Go-level panic propagating through interpreted frames.
type GoPanic struct {
	V    Value
	Site string
}

// PathAbort ends the current path silently (infeasible, or Assume(false)).
type PathAbort struct{ Why string }

func describe(v Value) string {
	switch x := v.(type) {
	case nil:
		return "<nil>"
	case *Term:
		s := x.String()
		if len(s) > 120 {
			s = s[:120] + "…"
		}
		return s
	case *Iface:
		if x == nil {
			return "nil-iface"
		}
		return fmt.Sprintf("iface(%s: %s)", x.T, describe(x.V))
	case *Cell:
		if x == nil {
			return "nil-ptr"
		}
		return "&" + describe(x.V)
	case *Struct:
		return fmt.Sprintf("struct{%d}", len(x.F))
	case *Closure:
		if x == nil {
			return "nil-func"
		}
		return "func " + x.Fn.String()
	case *Poison:
		return "poison(" + x.Name + ")"
	}
	return fmt.Sprintf("%T", v)
}

package sym

// load.go: load /repo + harness with go/packages (optionally with overlay files), build SSA.

import (
	"crypto/sha256"
	"encoding/hex"
	"fmt"
	"os"
	"sort"
	"strings"

	"golang.org/x/tools/go/packages"
	"golang.org/x/tools/go/ssa"
	"golang.org/x/tools/go/ssa/ssautil"
)

const AuthbossMod = "github.com/volatiletech/authboss/v3"
const HarnessMod = "verifharness"

type LoadConfig struct {
	HarnessDir string            // module dir of the harness
	Patterns   []string          // package patterns to load (harness packages)
	Overlay    map[string][]byte // extra files (absolute path -> content)
	RootPkg    string            // import path of the root harness package
}

func interpPkg(path string) bool {
	if strings.HasPrefix(path, AuthbossMod) {
		return !strings.HasPrefix(path, AuthbossMod+"/mocks")
	}
	return path == HarnessMod || strings.HasPrefix(path, HarnessMod+"/")
}

func Load(cfg LoadConfig) (*Program, error) {
	pcfg := &packages.Config{
		Mode:    packages.LoadAllSyntax,
		Dir:     cfg.HarnessDir,
		Overlay: cfg.Overlay,
		Env: append(os.Environ(), "GOFLAGS=-mod=mod", "GOPROXY=off", "GOSUMDB=off", "GOTOOLCHAIN=local",
			"CGO_ENABLED=0"),
	}
	pkgs, err := packages.Load(pcfg, cfg.Patterns...)
	if err != nil {
		return nil, err
	}
	var errs []string
	packages.Visit(pkgs, nil, func(p *packages.Package) {
		for _, e := range p.Errors {
			errs = append(errs, e.Error())
		}
	})
	if len(errs) > 0 {
		return nil, fmt.Errorf("load errors:\n%s", strings.Join(errs, "\n"))
	}
	prog, _ := ssautil.AllPackages(pkgs, ssa.InstantiateGenerics)
	prog.Build()
	p := &Program{Prog: prog, Interp: interpPkg, FileHash: map[string]string{}, Intrinsic: map[string]Intrinsic{}, GoStub: map[string]*ssa.Function{}, Summary: map[string]*ssa.Function{}}
	packages.Visit(pkgs, nil, func(pp *packages.Package) {
		if !interpPkg(pp.PkgPath) {
			return
		}
		for _, f := range pp.CompiledGoFiles {
			var data []byte
			if o, ok := cfg.Overlay[f]; ok {
				data = o
			} else {
				data, _ = os.ReadFile(f)
			}
			h := sha256.Sum256(data)
			p.FileHash[f] = hex.EncodeToString(h[:8])
		}
	})
	for _, sp := range prog.AllPackages() {
		if sp.Pkg.Path() == cfg.RootPkg {
			p.Root = sp
		}
	}
	if p.Root == nil {
		return nil, fmt.Errorf("root package %s not loaded", cfg.RootPkg)
	}
	registerIntrinsics(p)
	return p, nil
}

// ExternalCallees lists functions outside the interpreted packages that interpreted code calls
// statically (for planning the intrinsic table).
func (p *Program) ExternalCallees(onlyAuthboss bool) []string {
	set := map[string]int{}
	for fn := range ssautil.AllFunctions(p.Prog) {
		if fn.Pkg == nil || !p.Interp(fn.Pkg.Pkg.Path()) {
			continue
		}
		if onlyAuthboss && !strings.HasPrefix(fn.Pkg.Pkg.Path(), AuthbossMod) {
			continue
		}
		for _, b := range fn.Blocks {
			for _, in := range b.Instrs {
				var cc *ssa.CallCommon
				switch x := in.(type) {
				case *ssa.Call:
					cc = &x.Call
				case *ssa.Go:
					cc = &x.Call
				case *ssa.Defer:
					cc = &x.Call
				}
				if cc == nil {
					continue
				}
				if cc.IsInvoke() {
					if cc.Method.Pkg() != nil && !p.Interp(cc.Method.Pkg().Path()) {
						set["invoke "+cc.Method.FullName()]++
					}
					continue
				}
				if callee := cc.StaticCallee(); callee != nil {
					if callee.Pkg == nil || !p.Interp(callee.Pkg.Pkg.Path()) {
						if callee.Pkg == nil && callee.Synthetic != "" {
							// wrapper; attribute to its object
						}
						set[callee.String()]++
					}
				}
			}
		}
	}
	var out []string
	for k, n := range set {
		out = append(out, fmt.Sprintf("%4d %s", n, k))
	}
	sort.Strings(out)
	return out
}

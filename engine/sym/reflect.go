package sym

// reflect.go: the small part of package reflect that authboss.loadModule uses, modelled on
// executor values.

import (
	"go/types"

	"golang.org/x/tools/go/ssa"
)

type rval struct {
	typ  types.Type
	val  Value
	addr *Cell // settable location, if any
}

func rv(v Value) *rval {
	o, ok := v.(*Opaque)
	if !ok || o.Kind != "rvalue" {
		panic(Inconclusive{"reflect.Value operand is " + describe(v)})
	}
	return o.Data.(*rval)
}

func mkrv(r *rval) Value { return &Opaque{Kind: "rvalue", Data: r} }

func reflectKind(t types.Type) int64 {
	switch u := t.Underlying().(type) {
	case *types.Basic:
		switch u.Kind() {
		case types.Bool:
			return 1
		case types.Int:
			return 2
		case types.Int8:
			return 3
		case types.Int16:
			return 4
		case types.Int32:
			return 5
		case types.Int64:
			return 6
		case types.Uint:
			return 7
		case types.Uint8:
			return 8
		case types.Uint16:
			return 9
		case types.Uint32:
			return 10
		case types.Uint64:
			return 11
		case types.Uintptr:
			return 12
		case types.Float32:
			return 13
		case types.Float64:
			return 14
		case types.String:
			return 24
		}
	case *types.Array:
		return 17
	case *types.Chan:
		return 18
	case *types.Signature:
		return 19
	case *types.Interface:
		return 20
	case *types.Map:
		return 21
	case *types.Pointer:
		return 22
	case *types.Slice:
		return 23
	case *types.Struct:
		return 25
	}
	return 0
}

func registerReflect(p *Program) {
	I := p.Intrinsic
	I["reflect.ValueOf"] = func(ex *Exec, fr *frame, fn *ssa.Function, a []Value) Value {
		i, _ := a[0].(*Iface)
		if i == nil {
			return mkrv(&rval{})
		}
		return mkrv(&rval{typ: i.T, val: i.V})
	}
	I["(reflect.Value).Kind"] = func(ex *Exec, fr *frame, fn *ssa.Function, a []Value) Value {
		r := rv(a[0])
		if r.typ == nil {
			return IntC(0)
		}
		return IntC(reflectKind(r.typ))
	}
	I["(reflect.Value).Elem"] = func(ex *Exec, fr *frame, fn *ssa.Function, a []Value) Value {
		r := rv(a[0])
		pt, ok := r.typ.Underlying().(*types.Pointer)
		if !ok {
			panic(Inconclusive{"reflect.Value.Elem on non-pointer"})
		}
		c := r.val.(*Cell)
		if c == nil {
			return mkrv(&rval{})
		}
		return mkrv(&rval{typ: pt.Elem(), val: copyVal(c.V), addr: c})
	}
	I["(reflect.Value).Type"] = func(ex *Exec, fr *frame, fn *ssa.Function, a []Value) Value {
		return &Opaque{Kind: "rtype", Data: rv(a[0]).typ}
	}
	I["reflect.TypeOf"] = func(ex *Exec, fr *frame, fn *ssa.Function, a []Value) Value {
		i, _ := a[0].(*Iface)
		if i == nil {
			return (*Iface)(nil)
		}
		return &Opaque{Kind: "rtype", Data: i.T}
	}
	I["reflect.New"] = func(ex *Exec, fr *frame, fn *ssa.Function, a []Value) Value {
		var t types.Type
		switch x := a[0].(type) {
		case *Opaque:
			t = x.Data.(types.Type)
		case *Iface:
			t = x.V.(*Opaque).Data.(types.Type)
		default:
			panic(Inconclusive{"reflect.New of " + describe(a[0])})
		}
		return mkrv(&rval{typ: types.NewPointer(t), val: &Cell{V: zero(t)}})
	}
	I["(reflect.Value).Set"] = func(ex *Exec, fr *frame, fn *ssa.Function, a []Value) Value {
		r := rv(a[0])
		x := rv(a[1])
		if r.addr == nil {
			ex.goPanic(fr.fn.String(), "reflect: reflect.Value.Set using unaddressable value")
		}
		storeInto(r.addr, x.val)
		return nil
	}
	I["(reflect.Value).Interface"] = func(ex *Exec, fr *frame, fn *ssa.Function, a []Value) Value {
		r := rv(a[0])
		if r.typ == nil {
			return (*Iface)(nil)
		}
		v := r.val
		if r.addr != nil {
			v = copyVal(r.addr.V)
		}
		return &Iface{T: r.typ, V: v}
	}
}

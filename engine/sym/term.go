// Package sym is gosym: an SSA-level symbolic executor for Go with an SMT back end.
//
// term.go: hash-consed SMT terms (Bool, Int, String), a simplifying builder with a linear
// normal form for integers and interval tracking, and SMT-LIB2 printing.
package sym

import (
	"fmt"
	"math/big"
	"sort"
	"strings"
	"sync"
)

type Sort int

const (
	SBool Sort = iota
	SInt
	SStr
)

func (s Sort) String() string {
	switch s {
	case SBool:
		return "Bool"
	case SInt:
		return "Int"
	}
	return "String"
}

// Term is an immutable, hash-consed SMT term.
type Term struct {
	Op   string // "const", "var", or an operator name
	Args []*Term
	Sort Sort
	B    bool     // const Bool
	I    *big.Int // const Int
	S    string   // const String (raw bytes), or var/uf name
	ID   int
	lo   *big.Int // interval for Int terms (nil = unbounded)
	hi   *big.Int
	key  string
}

var (
	internMu  sync.Mutex
	internTab = map[string]*Term{}
	nextID    = 1
)

func intern(t *Term) *Term {
	var sb strings.Builder
	sb.WriteString(t.Op)
	sb.WriteByte('|')
	sb.WriteByte(byte('0' + t.Sort))
	switch t.Op {
	case "const":
		switch t.Sort {
		case SBool:
			if t.B {
				sb.WriteString("T")
			} else {
				sb.WriteString("F")
			}
		case SInt:
			sb.WriteString(t.I.String())
		case SStr:
			sb.WriteString(t.S)
		}
	default:
		sb.WriteString(t.S)
		for _, a := range t.Args {
			fmt.Fprintf(&sb, ",%d", a.ID)
		}
	}
	k := sb.String()
	internMu.Lock()
	defer internMu.Unlock()
	if e, ok := internTab[k]; ok {
		return e
	}
	t.key = k
	t.ID = nextID
	nextID++
	internTab[k] = t
	return t
}

func (t *Term) IsConst() bool { return t.Op == "const" }

// ---- constants and variables

var (
	True  = intern(&Term{Op: "const", Sort: SBool, B: true})
	False = intern(&Term{Op: "const", Sort: SBool, B: false})
)

func BoolC(b bool) *Term {
	if b {
		return True
	}
	return False
}

func IntC(i int64) *Term { return IntBig(big.NewInt(i)) }

func IntBig(i *big.Int) *Term {
	c := new(big.Int).Set(i)
	return intern(&Term{Op: "const", Sort: SInt, I: c, lo: c, hi: c})
}

func StrC(s string) *Term { return intern(&Term{Op: "const", Sort: SStr, S: s}) }

// Var creates (or returns) a variable. For Int variables lo/hi may give a known range.
func Var(name string, s Sort) *Term { return intern(&Term{Op: "var", Sort: s, S: name}) }

func IntVarRange(name string, lo, hi *big.Int) *Term {
	t := intern(&Term{Op: "var", Sort: SInt, S: name, lo: lo, hi: hi})
	return t
}

// App is an uninterpreted function application.
func App(name string, sort Sort, args ...*Term) *Term {
	t := &Term{Op: "app", Sort: sort, S: name, Args: args}
	if sort == SInt {
		// no interval
	}
	return intern(t)
}

func mk(op string, sort Sort, args ...*Term) *Term {
	return intern(&Term{Op: op, Sort: sort, Args: args})
}

func mkInt(op string, lo, hi *big.Int, args ...*Term) *Term {
	return intern(&Term{Op: op, Sort: SInt, Args: args, lo: lo, hi: hi})
}

// ---- Bool

func Not(a *Term) *Term {
	if a.IsConst() {
		return BoolC(!a.B)
	}
	if a.Op == "not" {
		return a.Args[0]
	}
	return mk("not", SBool, a)
}

func And(as ...*Term) *Term {
	var out []*Term
	seen := map[int]bool{}
	for _, a := range as {
		if a.IsConst() {
			if !a.B {
				return False
			}
			continue
		}
		if a.Op == "and" {
			for _, b := range a.Args {
				if !seen[b.ID] {
					seen[b.ID] = true
					out = append(out, b)
				}
			}
			continue
		}
		if !seen[a.ID] {
			seen[a.ID] = true
			out = append(out, a)
		}
	}
	for _, a := range out {
		if a.Op == "not" && seen[a.Args[0].ID] {
			return False
		}
	}
	if len(out) == 0 {
		return True
	}
	if len(out) == 1 {
		return out[0]
	}
	return mk("and", SBool, out...)
}

func Or(as ...*Term) *Term {
	var out []*Term
	seen := map[int]bool{}
	for _, a := range as {
		if a.IsConst() {
			if a.B {
				return True
			}
			continue
		}
		if a.Op == "or" {
			for _, b := range a.Args {
				if !seen[b.ID] {
					seen[b.ID] = true
					out = append(out, b)
				}
			}
			continue
		}
		if !seen[a.ID] {
			seen[a.ID] = true
			out = append(out, a)
		}
	}
	for _, a := range out {
		if a.Op == "not" && seen[a.Args[0].ID] {
			return True
		}
	}
	if len(out) == 0 {
		return False
	}
	if len(out) == 1 {
		return out[0]
	}
	return mk("or", SBool, out...)
}

func Implies(a, b *Term) *Term { return Or(Not(a), b) }

func Iff(a, b *Term) *Term { return Eq(a, b) }

func Ite(c, a, b *Term) *Term {
	if c.IsConst() {
		if c.B {
			return a
		}
		return b
	}
	if a == b {
		return a
	}
	if a.Sort == SBool {
		if a.IsConst() && b.IsConst() {
			if a.B {
				return c
			}
			return Not(c)
		}
		return Or(And(c, a), And(Not(c), b))
	}
	if a.Sort == SInt {
		var lo, hi *big.Int
		if a.lo != nil && b.lo != nil {
			lo = minBig(a.lo, b.lo)
		}
		if a.hi != nil && b.hi != nil {
			hi = maxBig(a.hi, b.hi)
		}
		return mkInt("ite", lo, hi, c, a, b)
	}
	return mk("ite", a.Sort, c, a, b)
}

func Eq(a, b *Term) *Term {
	if a.Sort != b.Sort {
		panic(fmt.Sprintf("Eq sort mismatch %v %v", a, b))
	}
	if a == b {
		return True
	}
	if a.IsConst() && b.IsConst() {
		switch a.Sort {
		case SBool:
			return BoolC(a.B == b.B)
		case SInt:
			return BoolC(a.I.Cmp(b.I) == 0)
		case SStr:
			return BoolC(a.S == b.S)
		}
	}
	switch a.Sort {
	case SBool:
		if a.IsConst() {
			a, b = b, a
		}
		if b.IsConst() {
			if b.B {
				return a
			}
			return Not(a)
		}
	case SInt:
		d := Sub(a, b)
		if d.IsConst() {
			return BoolC(d.I.Sign() == 0)
		}
		for _, pr := range [][2]*Term{{a, b}, {b, a}} {
			if pr[0].Op == "str.to_code" && pr[1].IsConst() {
				if al := alphabetOfChar(pr[0].Args[0]); al != "" {
					if !pr[1].I.IsInt64() || pr[1].I.Int64() < 0 || pr[1].I.Int64() > 255 || strings.IndexByte(al, byte(pr[1].I.Int64())) < 0 {
						return False
					}
				}
			}
		}
		if d.lo != nil && d.lo.Sign() > 0 || d.hi != nil && d.hi.Sign() < 0 {
			return False
		}
	case SStr:
		if IsCharList(a) || IsCharList(b) {
			ca, ok1 := charList(a)
			cb, ok2 := charList(b)
			if ok1 && ok2 {
				if len(ca) != len(cb) {
					return False
				}
				var eqs []*Term
				for i := range ca {
					eqs = append(eqs, Eq(ca[i], cb[i]))
				}
				return And(eqs...)
			}
		}
		// length-based quick refutation for constants vs concat of constants
		la, lb := StrLen(a), StrLen(b)
		if la.IsConst() && lb.IsConst() && la.I.Cmp(lb.I) != 0 {
			return False
		}
		if la.lo != nil && lb.hi != nil && la.lo.Cmp(lb.hi) > 0 {
			return False
		}
		if lb.lo != nil && la.hi != nil && lb.lo.Cmp(la.hi) > 0 {
			return False
		}
	}
	if a.ID > b.ID {
		a, b = b, a
	}
	return mk("=", SBool, a, b)
}

// ---- Int: linear normal form

type linTerm struct {
	coef *big.Int
	atom *Term
}

func linearize(t *Term, mult *big.Int, acc map[int]*linTerm, c *big.Int) {
	switch {
	case t.IsConst():
		c.Add(c, new(big.Int).Mul(mult, t.I))
	case t.Op == "+":
		for _, a := range t.Args {
			linearize(a, mult, acc, c)
		}
	case t.Op == "*" && t.Args[0].IsConst():
		linearize(t.Args[1], new(big.Int).Mul(mult, t.Args[0].I), acc, c)
	default:
		if e, ok := acc[t.ID]; ok {
			e.coef = new(big.Int).Add(e.coef, mult)
		} else {
			acc[t.ID] = &linTerm{coef: new(big.Int).Set(mult), atom: t}
		}
	}
}

func fromLinear(acc map[int]*linTerm, c *big.Int) *Term {
	var lts []*linTerm
	for _, lt := range acc {
		if lt.coef.Sign() != 0 {
			lts = append(lts, lt)
		}
	}
	if len(lts) == 0 {
		return IntBig(c)
	}
	sort.Slice(lts, func(i, j int) bool { return lts[i].atom.ID < lts[j].atom.ID })
	var args []*Term
	lo := new(big.Int).Set(c)
	hi := new(big.Int).Set(c)
	loOK, hiOK := true, true
	for _, lt := range lts {
		var a *Term
		alo, ahi := lt.atom.lo, lt.atom.hi
		if lt.coef.Cmp(big.NewInt(1)) == 0 {
			a = lt.atom
		} else {
			var l2, h2 *big.Int
			if lt.coef.Sign() > 0 {
				if alo != nil {
					l2 = new(big.Int).Mul(alo, lt.coef)
				}
				if ahi != nil {
					h2 = new(big.Int).Mul(ahi, lt.coef)
				}
			} else {
				if ahi != nil {
					l2 = new(big.Int).Mul(ahi, lt.coef)
				}
				if alo != nil {
					h2 = new(big.Int).Mul(alo, lt.coef)
				}
			}
			a = mkInt("*", l2, h2, IntBig(lt.coef), lt.atom)
			alo, ahi = l2, h2
		}
		if alo != nil {
			lo.Add(lo, alo)
		} else {
			loOK = false
		}
		if ahi != nil {
			hi.Add(hi, ahi)
		} else {
			hiOK = false
		}
		args = append(args, a)
	}
	if c.Sign() != 0 {
		args = append(args, IntBig(c))
	}
	if len(args) == 1 {
		return args[0]
	}
	if !loOK {
		lo = nil
	}
	if !hiOK {
		hi = nil
	}
	return mkInt("+", lo, hi, args...)
}

func Add(as ...*Term) *Term {
	acc := map[int]*linTerm{}
	c := new(big.Int)
	one := big.NewInt(1)
	for _, a := range as {
		linearize(a, one, acc, c)
	}
	return fromLinear(acc, c)
}

func Sub(a, b *Term) *Term {
	acc := map[int]*linTerm{}
	c := new(big.Int)
	linearize(a, big.NewInt(1), acc, c)
	linearize(b, big.NewInt(-1), acc, c)
	return fromLinear(acc, c)
}

func Neg(a *Term) *Term { return Sub(IntC(0), a) }

func Mul(a, b *Term) *Term {
	if b.IsConst() {
		a, b = b, a
	}
	if a.IsConst() {
		acc := map[int]*linTerm{}
		c := new(big.Int)
		linearize(b, a.I, acc, c)
		return fromLinear(acc, c)
	}
	return mkInt("mul", nil, nil, a, b)
}

// DivE / ModE are SMT-LIB Euclidean div/mod (divisor must be a non-zero constant for folding).
func DivE(a, b *Term) *Term {
	if a.IsConst() && b.IsConst() && b.I.Sign() != 0 {
		q, _ := new(big.Int).DivMod(a.I, b.I, new(big.Int))
		return IntBig(q)
	}
	var lo, hi *big.Int
	if b.IsConst() && b.I.Sign() > 0 {
		if a.lo != nil {
			lo, _ = new(big.Int).DivMod(a.lo, b.I, new(big.Int))
		}
		if a.hi != nil {
			hi, _ = new(big.Int).DivMod(a.hi, b.I, new(big.Int))
		}
	}
	return mkInt("div", lo, hi, a, b)
}

func ModE(a, b *Term) *Term {
	if a.IsConst() && b.IsConst() && b.I.Sign() != 0 {
		_, m := new(big.Int).DivMod(a.I, b.I, new(big.Int))
		return IntBig(m)
	}
	var lo, hi *big.Int
	if b.IsConst() && b.I.Sign() > 0 {
		if a.lo != nil && a.hi != nil && a.lo.Sign() >= 0 && a.hi.Cmp(b.I) < 0 {
			return a
		}
		lo = big.NewInt(0)
		hi = new(big.Int).Sub(b.I, big.NewInt(1))
	}
	return mkInt("mod", lo, hi, a, b)
}

func Le(a, b *Term) *Term {
	d := Sub(b, a) // b - a >= 0
	if d.IsConst() {
		return BoolC(d.I.Sign() >= 0)
	}
	if d.lo != nil && d.lo.Sign() >= 0 {
		return True
	}
	if d.hi != nil && d.hi.Sign() < 0 {
		return False
	}
	return mk("<=", SBool, a, b)
}

func Lt(a, b *Term) *Term { return Not(Le(b, a)) }
func Ge(a, b *Term) *Term { return Le(b, a) }
func Gt(a, b *Term) *Term { return Lt(b, a) }

// WrapInt applies two's-complement wrapping for a Go integer kind unless the interval proves
// the value already fits.
func WrapInt(t *Term, bits uint, signed bool) *Term {
	var lo, hi *big.Int
	if signed {
		lo = new(big.Int).Neg(new(big.Int).Lsh(big.NewInt(1), bits-1))
		hi = new(big.Int).Sub(new(big.Int).Lsh(big.NewInt(1), bits-1), big.NewInt(1))
	} else {
		lo = big.NewInt(0)
		hi = new(big.Int).Sub(new(big.Int).Lsh(big.NewInt(1), bits), big.NewInt(1))
	}
	if t.lo != nil && t.hi != nil && t.lo.Cmp(lo) >= 0 && t.hi.Cmp(hi) <= 0 {
		return t
	}
	m := IntBig(new(big.Int).Lsh(big.NewInt(1), bits))
	if signed {
		h := IntBig(new(big.Int).Lsh(big.NewInt(1), bits-1))
		return Sub(ModE(Add(t, h), m), h)
	}
	return ModE(t, m)
}

func minBig(a, b *big.Int) *big.Int {
	if a.Cmp(b) < 0 {
		return a
	}
	return b
}
func maxBig(a, b *big.Int) *big.Int {
	if a.Cmp(b) > 0 {
		return a
	}
	return b
}

// ---- String

var maxStrLen = big.NewInt(1 << 31)

func StrLen(a *Term) *Term {
	switch {
	case a.IsConst():
		return IntC(int64(len(a.S)))
	case a.Op == "str.++":
		var ls []*Term
		for _, x := range a.Args {
			ls = append(ls, StrLen(x))
		}
		return Add(ls...)
	case a.Op == "zeros":
		return a.Args[0]
	case a.Op == "substr!":
		return a.Args[2]
	case a.Op == "str.from_code!":
		return IntC(1)
	case a.Op == "app":
		if n, ok := ufFixedLen[a.S]; ok {
			return IntC(int64(n))
		}
		if a.S == "fmtx" { // %x: two hex digits per byte
			return Mul(IntC(2), StrLen(a.Args[0]))
		}
	case a.Op == "var":
		if n, ok := fixedLenOfVar(a.S); ok {
			return IntC(n)
		}
		if n, ok := maxLenOfVar(a.S); ok {
			return mkInt("str.len", big.NewInt(0), big.NewInt(n), a)
		}
	case a.Op == "ite":
		return Ite(a.Args[0], StrLen(a.Args[1]), StrLen(a.Args[2]))
	}
	return mkInt("str.len", big.NewInt(0), maxStrLen, a)
}

// fixedLenOfVar: variables named "<label>!len<N>#k" have length N by construction (the solver
// side condition is emitted where the variable is introduced).
func fixedLenOfVar(name string) (int64, bool) {
	i := strings.LastIndex(name, "!len")
	if i < 0 {
		return 0, false
	}
	j := strings.IndexByte(name[i:], '#')
	if j < 0 {
		return 0, false
	}
	var n int64
	for _, c := range name[i+4 : i+j] {
		if c < '0' || c > '9' {
			return 0, false
		}
		n = n*10 + int64(c-'0')
	}
	return n, true
}

// maxLenOfVar: variables named "<label>!max<N>#k" have length <= N (asserted where introduced).
func maxLenOfVar(name string) (int64, bool) {
	i := strings.LastIndex(name, "!max")
	if i < 0 {
		return 0, false
	}
	j := strings.IndexByte(name[i:], '#')
	if j < 0 {
		return 0, false
	}
	var n int64
	for _, c := range name[i+4 : i+j] {
		if c < '0' || c > '9' {
			return 0, false
		}
		n = n*10 + int64(c-'0')
	}
	return n, true
}

// ufFixedLen: uninterpreted functions whose results have a fixed length (e.g. sha512 -> 64).
var ufFixedLen = map[string]int{}

func Concat(as ...*Term) *Term {
	var out []*Term
	for _, a := range as {
		if a.Op == "str.++" {
			for _, b := range a.Args {
				out = appendConcat(out, b)
			}
		} else {
			out = appendConcat(out, a)
		}
	}
	if len(out) == 0 {
		return StrC("")
	}
	if len(out) == 1 {
		return out[0]
	}
	return mk("str.++", SStr, out...)
}

func appendConcat(out []*Term, b *Term) []*Term {
	if b.IsConst() && b.S == "" {
		return out
	}
	if b.Op == "zeros" && b.Args[0].IsConst() && b.Args[0].I.Sign() == 0 {
		return out
	}
	if n := len(out); n > 0 && out[n-1].IsConst() && b.IsConst() {
		out[n-1] = StrC(out[n-1].S + b.S)
		return out
	}
	// merge adjacent substr! of the same base: substr!(x,a,l1) ++ substr!(x,a+l1,l2)
	if n := len(out); n > 0 && out[n-1].Op == "substr!" && b.Op == "substr!" && out[n-1].Args[0] == b.Args[0] {
		p := out[n-1]
		if Add(p.Args[1], p.Args[2]) == b.Args[1] {
			out[n-1] = SubstrIn(p.Args[0], p.Args[1], Add(p.Args[2], b.Args[2]))
			return out
		}
	}
	return append(out, b)
}

// Zeros is a string of n NUL bytes (n: Int term, n >= 0 established by caller).
func Zeros(n *Term) *Term {
	if n.IsConst() {
		return StrC(strings.Repeat("\x00", int(n.I.Int64())))
	}
	return mk("zeros", SStr, n)
}

// constDiff returns (a-b, true) if a-b is a constant.
func constDiff(a, b *Term) (int64, bool) {
	d := Sub(a, b)
	if d.IsConst() && d.I.IsInt64() {
		return d.I.Int64(), true
	}
	return 0, false
}

// SubstrIn is substr(x, a, l) where the caller has established 0 <= a, 0 <= l, a+l <= len(x)
// on the current path. It simplifies structurally.
func SubstrIn(x, a, l *Term) *Term {
	if l.IsConst() && l.I.Sign() == 0 {
		return StrC("")
	}
	xl := StrLen(x)
	if a.IsConst() && a.I.Sign() == 0 && l == xl {
		return x
	}
	switch {
	case x.IsConst() && a.IsConst() && l.IsConst():
		ai, li := int(a.I.Int64()), int(l.I.Int64())
		if ai >= 0 && li >= 0 && ai+li <= len(x.S) {
			return StrC(x.S[ai : ai+li])
		}
	case x.Op == "zeros":
		return Zeros(l)
	case x.Op == "substr!":
		return SubstrIn(x.Args[0], Add(x.Args[1], a), l)
	case x.Op == "str.++":
		// locate piece boundaries syntactically: b[0]=0, b[i+1]=b[i]+len(piece i)
		k := len(x.Args)
		bnd := make([]*Term, k+1)
		bnd[0] = IntC(0)
		for i, p := range x.Args {
			bnd[i+1] = Add(bnd[i], StrLen(p))
		}
		end := Add(a, l)
		si, c1 := -1, int64(0)
		for i := k; i >= 0; i-- {
			if d, ok := constDiff(a, bnd[i]); ok && d >= 0 {
				si, c1 = i, d
				break
			}
		}
		ej, c2 := -1, int64(0)
		if si >= 0 {
			for j := si; j <= k; j++ {
				if d, ok := constDiff(bnd[j], end); ok && d >= 0 {
					ej, c2 = j, d
					break
				}
			}
		}
		if si > 0 && ej < 0 {
			// the region starts at or after piece si: drop the pieces before it
			return SubstrIn(Concat(x.Args[si:]...), IntC(c1), l)
		}
		if si >= 0 && ej >= 0 {
			if ej == si {
				return StrC("") // l == 0
			}
			if c1 == 0 && c2 == 0 {
				return Concat(x.Args[si:ej]...)
			}
			if ej-si == 1 {
				return SubstrIn(x.Args[si], IntC(c1), l)
			}
			if si > 0 || ej < k {
				return SubstrIn(Concat(x.Args[si:ej]...), IntC(c1), l)
			}
			// whole concat: try peeling constant-length first/last pieces
			first, last := x.Args[0], x.Args[k-1]
			if fl := StrLen(first); c1 > 0 && fl.IsConst() && fl.I.Int64() <= c1 {
				return SubstrIn(Concat(x.Args[1:]...), IntC(c1-fl.I.Int64()), l)
			}
			if ll := StrLen(last); c2 > 0 && ll.IsConst() && ll.I.Int64() <= c2 {
				return SubstrIn(Concat(x.Args[:k-1]...), IntC(c1), l)
			}
			if c1 > 0 {
				if fl := StrLen(first); fl.IsConst() && fl.I.Int64() > c1 {
					// split first piece
					rest := SubstrIn(first, IntC(c1), IntC(fl.I.Int64()-c1))
					return SubstrIn(Concat(append([]*Term{rest}, x.Args[1:]...)...), IntC(0), l)
				}
			}
			if c2 > 0 {
				if ll := StrLen(last); ll.IsConst() && ll.I.Int64() > c2 {
					keep := SubstrIn(last, IntC(0), IntC(ll.I.Int64()-c2))
					return SubstrIn(Concat(append(append([]*Term{}, x.Args[:k-1]...), keep)...), IntC(c1), l)
				}
			}
		}
	}
	return mk("substr!", SStr, x, a, l)
}

// Substr is the total SMT-LIB str.substr (no in-range assumption).
func Substr(x, a, l *Term) *Term {
	if x.IsConst() && a.IsConst() && l.IsConst() {
		ai, li := a.I.Int64(), l.I.Int64()
		n := int64(len(x.S))
		if ai < 0 || ai >= n || li <= 0 {
			return StrC("")
		}
		e := ai + li
		if e > n {
			e = n
		}
		return StrC(x.S[ai:e])
	}
	return mk("str.substr", SStr, x, a, l)
}

func StrAt(x, i *Term) *Term { return SubstrIn(x, i, IntC(1)) }

// ByteAt returns the byte at index i as an Int (caller established 0 <= i < len).
func ByteAt(x, i *Term) *Term {
	s := SubstrIn(x, i, IntC(1))
	return StrToCode(s)
}

func StrToCode(s *Term) *Term {
	if s.IsConst() && len(s.S) == 1 {
		return IntC(int64(s.S[0]))
	}
	if s.Op == "str.from_code!" {
		return s.Args[0]
	}
	if a := alphabetOfChar(s); a != "" {
		lo, hi := byte(255), byte(0)
		for i := 0; i < len(a); i++ {
			if a[i] < lo {
				lo = a[i]
			}
			if a[i] > hi {
				hi = a[i]
			}
		}
		return mkInt("str.to_code", big.NewInt(int64(lo)), big.NewInt(int64(hi)), s)
	}
	if n := StrLen(s); n.IsConst() && n.I.Int64() == 1 {
		return mkInt("str.to_code", big.NewInt(0), big.NewInt(255), s) // a one-byte string: never the -1 of the empty string
	}
	return mkInt("str.to_code", big.NewInt(-1), big.NewInt(255), s)
}

// StrFromByte: i is an Int term in 0..255.
func StrFromByte(i *Term) *Term {
	if i.IsConst() {
		return StrC(string([]byte{byte(i.I.Int64())}))
	}
	if i.Op == "str.to_code" && StrLen(i.Args[0]).IsConst() && StrLen(i.Args[0]).I.Int64() == 1 {
		return i.Args[0]
	}
	return mk("str.from_code!", SStr, i)
}

func StrContains(a, b *Term) *Term {
	if a.IsConst() && b.IsConst() {
		return BoolC(strings.Contains(a.S, b.S))
	}
	if b.IsConst() && b.S == "" {
		return True
	}
	if b.IsConst() {
		if cs, ok := charList(a); ok {
			var ms []*Term
			for i := 0; i+len(b.S) <= len(cs); i++ {
				ms = append(ms, matchAt(cs, i, b.S))
			}
			return Or(ms...)
		}
	}
	return mk("str.contains", SBool, a, b)
}

func StrPrefixOf(p, s *Term) *Term { // p is a prefix of s
	if p.IsConst() && s.IsConst() {
		return BoolC(strings.HasPrefix(s.S, p.S))
	}
	if p.IsConst() && p.S == "" {
		return True
	}
	if p.IsConst() {
		if cs, ok := charList(s); ok {
			if len(p.S) > len(cs) {
				return False
			}
			return matchAt(cs, 0, p.S)
		}
	}
	if p.IsConst() && s.Op == "str.from_int" && (p.S[0] < '0' || p.S[0] > '9') {
		return False // decimal renderings consist of digits only
	}
	if p.IsConst() && s.Op == "str.++" && s.Args[0].IsConst() {
		h := s.Args[0].S
		if len(h) >= len(p.S) {
			return BoolC(strings.HasPrefix(h, p.S))
		}
		if !strings.HasPrefix(p.S, h) {
			return False
		}
	}
	return mk("str.prefixof", SBool, p, s)
}

func StrSuffixOf(p, s *Term) *Term {
	if p.IsConst() && s.IsConst() {
		return BoolC(strings.HasSuffix(s.S, p.S))
	}
	if p.IsConst() && p.S == "" {
		return True
	}
	if p.IsConst() {
		if cs, ok := charList(s); ok {
			if len(p.S) > len(cs) {
				return False
			}
			return matchAt(cs, len(cs)-len(p.S), p.S)
		}
	}
	return mk("str.suffixof", SBool, p, s)
}

// StrIndexOf(s, sub, from): -1 if absent.
func StrIndexOf(s, sub, from *Term) *Term {
	if s.IsConst() && sub.IsConst() && from.IsConst() {
		f := int(from.I.Int64())
		if f < 0 || f > len(s.S) {
			return IntC(-1)
		}
		i := strings.Index(s.S[f:], sub.S)
		if i < 0 {
			return IntC(-1)
		}
		return IntC(int64(i + f))
	}
	if sub.IsConst() && sub.S != "" && from.IsConst() && from.I.Sign() >= 0 && from.I.IsInt64() {
		if cs, ok := charList(s); ok && !s.IsConst() {
			return charListIndexOf(cs, sub.S, int(from.I.Int64()))
		}
	}
	if sub.IsConst() && len(sub.S) == 1 && from.IsConst() && from.I.Sign() == 0 {
		// single-character search through a concatenation whose leading pieces are known not
		// to contain the character (constants, UF results over a known alphabet)
		pieces := []*Term{s}
		if s.Op == "str.++" {
			pieces = s.Args
		}
		off := IntC(0)
		all := true
		for _, p := range pieces {
			if p.IsConst() {
				if i := strings.IndexByte(p.S, sub.S[0]); i >= 0 {
					return Add(off, IntC(int64(i)))
				}
			} else if p.Op == "app" && ufFreeOf(p.S, sub.S[0]) {
				// cannot contain the character
			} else if p.Op == "var" && strings.Contains(p.S, "!alnum") && !isAlnum(sub.S[0]) {
				// variables labelled alphanumeric (salts) cannot contain it either
			} else {
				all = false
				break
			}
			off = Add(off, StrLen(p))
		}
		if all {
			return IntC(-1)
		}
	}
	return mkInt("str.indexof", big.NewInt(-1), maxStrLen, s, sub, from)
}

// alphabetOfChar: if s is a single character taken (in range) from the result of an
// uninterpreted function with a known alphabet, that alphabet; else "".
func alphabetOfChar(s *Term) string {
	if s.Op == "substr!" && s.Args[0].Op == "app" && s.Args[2].IsConst() && s.Args[2].I.Int64() == 1 {
		return ufAlphabet[s.Args[0].S]
	}
	return ""
}

func isAlnum(c byte) bool {
	return c >= '0' && c <= '9' || c >= 'a' && c <= 'z' || c >= 'A' && c <= 'Z'
}

// ufAlphabet: uninterpreted functions whose results range over a known alphabet (the matching
// solver-side axiom is emitted with each application, see smt.go).
var ufAlphabet = map[string]string{}

func ufFreeOf(uf string, c byte) bool {
	a, ok := ufAlphabet[uf]
	return ok && strings.IndexByte(a, c) < 0
}

func StrReplaceAll(s, old, new *Term) *Term {
	if s.IsConst() && old.IsConst() && new.IsConst() {
		return StrC(strings.ReplaceAll(s.S, old.S, new.S))
	}
	return mk("str.replace_all", SStr, s, old, new)
}

// StrAllIn: every character of s lies in one of the byte ranges of classes (pairs).
func StrAllIn(s *Term, classes string) *Term {
	if s.IsConst() {
		for i := 0; i < len(s.S); i++ {
			ok := false
			for j := 0; j+1 < len(classes); j += 2 {
				if s.S[i] >= classes[j] && s.S[i] <= classes[j+1] {
					ok = true
				}
			}
			if !ok {
				return False
			}
		}
		return True
	}
	// structural cases: a concatenation is within the classes iff all its parts are; any piece
	// of the result of an uninterpreted function with a known alphabet is within that alphabet
	if s.Op == "str.++" {
		var cs []*Term
		for _, a := range s.Args {
			cs = append(cs, StrAllIn(a, classes))
		}
		return And(cs...)
	}
	base := s
	for base.Op == "str.substr" {
		base = base.Args[0]
	}
	if base.Op == "app" {
		if al, ok := ufAlphabet[base.S]; ok && al != "" {
			within := true
			for i := 0; i < len(al); i++ {
				in := false
				for j := 0; j+1 < len(classes); j += 2 {
					if al[i] >= classes[j] && al[i] <= classes[j+1] {
						in = true
					}
				}
				within = within && in
			}
			if within {
				return True
			}
		}
	}
	if n := StrLen(s); n.hi != nil && n.hi.IsInt64() && n.hi.Int64() <= 16 {
		// short string: one range constraint per position instead of a regular expression
		var cs []*Term
		for i := int64(0); i < n.hi.Int64(); i++ {
			code := charCode(s, i)
			var rs []*Term
			for j := 0; j+1 < len(classes); j += 2 {
				rs = append(rs, And(Le(IntC(int64(classes[j])), code), Le(code, IntC(int64(classes[j+1])))))
			}
			cs = append(cs, Or(Le(n, IntC(i)), Or(rs...)))
		}
		return And(cs...)
	}
	return intern(&Term{Op: "all_in", Sort: SBool, S: classes, Args: []*Term{s}})
}

func StrLtLex(a, b *Term) *Term {
	if a.IsConst() && b.IsConst() {
		return BoolC(a.S < b.S)
	}
	return mk("str.<", SBool, a, b)
}

// StrFromInt: decimal of a non-negative Int ("" for negative, per SMT-LIB).
func StrFromInt(i *Term) *Term {
	if i.IsConst() && i.I.Sign() >= 0 {
		return StrC(i.I.String())
	}
	return mk("str.from_int", SStr, i)
}

// StrToInt: -1 if not all digits.
func StrToInt(s *Term) *Term {
	if s.IsConst() {
		if s.S == "" {
			return IntC(-1)
		}
		for _, c := range []byte(s.S) {
			if c < '0' || c > '9' {
				return IntC(-1)
			}
		}
		v, _ := new(big.Int).SetString(s.S, 10)
		return IntBig(v)
	}
	if s.Op == "str.from_int" && s.Args[0].lo != nil && s.Args[0].lo.Sign() >= 0 {
		return s.Args[0] // to_int(from_int(x)) = x for x >= 0
	}
	return mkInt("str.to_int", big.NewInt(-1), nil, s)
}

// ---- printing

func smtStr(s string) string {
	var sb strings.Builder
	sb.WriteByte('"')
	for i := 0; i < len(s); i++ {
		c := s[i]
		switch {
		case c == '"':
			sb.WriteString(`""`)
		case c == '\\':
			sb.WriteString(`\u{5c}`)
		case c >= 0x20 && c < 0x7f:
			sb.WriteByte(c)
		default:
			fmt.Fprintf(&sb, `\u{%x}`, c)
		}
	}
	sb.WriteByte('"')
	return sb.String()
}

func smtInt(i *big.Int) string {
	if i.Sign() < 0 {
		return "(- " + new(big.Int).Neg(i).String() + ")"
	}
	return i.String()
}

// SymName sanitises a variable/UF name for SMT-LIB.
func SymName(n string) string { return "|" + strings.NewReplacer("|", "_", "\\", "_").Replace(n) + "|" }

// String renders the term in SMT-LIB2 (shared sub-terms are expanded; see printer in smt.go
// for the let-free but memoised version used for solver I/O).
func (t *Term) String() string {
	var sb strings.Builder
	t.write(&sb)
	return sb.String()
}

func (t *Term) write(sb *strings.Builder) {
	switch t.Op {
	case "const":
		switch t.Sort {
		case SBool:
			if t.B {
				sb.WriteString("true")
			} else {
				sb.WriteString("false")
			}
		case SInt:
			sb.WriteString(smtInt(t.I))
		case SStr:
			sb.WriteString(smtStr(t.S))
		}
		return
	case "var":
		sb.WriteString(SymName(t.S))
		return
	case "zeros":
		// printed through an auxiliary variable; see Solver.auxZeros
		sb.WriteString(SymName("zeros!" + fmt.Sprint(t.ID)))
		return
	case "app":
		if len(t.Args) == 0 {
			sb.WriteString(SymName(t.S))
			return
		}
		sb.WriteByte('(')
		sb.WriteString(SymName(t.S))
	case "in_re":
		sb.WriteString("(str.in_re ")
		t.Args[0].write(sb)
		sb.WriteString(" " + t.S + ")")
		return
	case "all_in":
		sb.WriteString("(str.in_re ")
		t.Args[0].write(sb)
		sb.WriteString(" (re.* (re.union")
		if len(t.S) == 2 {
			sb.WriteString(" re.none")
		}
		for j := 0; j+1 < len(t.S); j += 2 {
			sb.WriteString(" (re.range " + smtStr(t.S[j:j+1]) + " " + smtStr(t.S[j+1:j+2]) + ")")
		}
		sb.WriteString(")))")
		return
	case "substr!":
		sb.WriteString("(str.substr")
	case "str.from_code!":
		sb.WriteString("(str.from_code")
	case "mul":
		sb.WriteString("(*")
	default:
		sb.WriteByte('(')
		sb.WriteString(t.Op)
	}
	for _, a := range t.Args {
		sb.WriteByte(' ')
		a.write(sb)
	}
	sb.WriteByte(')')
}

// Walk visits every distinct sub-term once.
func Walk(t *Term, seen map[int]bool, f func(*Term)) {
	if seen[t.ID] {
		return
	}
	seen[t.ID] = true
	for _, a := range t.Args {
		Walk(a, seen, f)
	}
	f(t)
}

// ---- character lists: strings whose every position is a constant byte or a one-character
// term with an integer code (built by verif.Chars). String predicates over them are expanded
// into integer constraints on the codes, so the solver's string theory is not involved.

func charList(t *Term) ([]*Term, bool) {
	switch {
	case t.IsConst():
		out := make([]*Term, len(t.S))
		for i := 0; i < len(t.S); i++ {
			out[i] = IntC(int64(t.S[i]))
		}
		return out, true
	case t.Op == "str.from_code!":
		return []*Term{t.Args[0]}, true
	case t.Op == "str.++":
		var out []*Term
		for _, p := range t.Args {
			l, ok := charList(p)
			if !ok {
				return nil, false
			}
			out = append(out, l...)
		}
		return out, true
	}
	return nil, false
}

// IsCharList reports whether t has a symbolic part and is a character list.
func IsCharList(t *Term) bool {
	if t.IsConst() {
		return false
	}
	_, ok := charList(t)
	return ok
}

func matchAt(cs []*Term, i int, pat string) *Term {
	var eqs []*Term
	for k := 0; k < len(pat); k++ {
		eqs = append(eqs, Eq(cs[i+k], IntC(int64(pat[k]))))
	}
	return And(eqs...)
}

func charListIndexOf(cs []*Term, pat string, from int) *Term {
	res := IntC(-1)
	for i := len(cs) - len(pat); i >= from; i-- {
		if i < 0 {
			break
		}
		res = Ite(matchAt(cs, i, pat), IntC(int64(i)), res)
	}
	return res
}

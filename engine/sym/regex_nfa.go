package sym

// regex_nfa.go: regular-expression membership for strings of bounded length by symbolic
// simulation of Go's own compiled regexp program (regexp/syntax.Prog): one Bool term per
// (position, instruction). Exact for ASCII subjects; bytes >= 0x80 are treated as single
// characters (Go would decode UTF-8 runes) — stated in the evidence as outside the claim.

import (
	"fmt"
	"math/big"
	"regexp/syntax"
)

func charCode(s *Term, i int64) *Term {
	if ln := StrLen(s); ln.lo != nil && ln.lo.IsInt64() && i < ln.lo.Int64() {
		return ByteAt(s, IntC(i)) // position certainly in range: structural access
	}
	return mkInt("str.to_code", big.NewInt(-1), big.NewInt(255), mk("str.at", SStr, s, IntC(i)))
}

func instMatches(in *syntax.Inst, c *Term) (*Term, error) {
	switch in.Op {
	case syntax.InstRuneAny:
		return True, nil
	case syntax.InstRuneAnyNotNL:
		return Not(Eq(c, IntC(10))), nil
	case syntax.InstRune1, syntax.InstRune:
		fold := syntax.Flags(in.Arg)&syntax.FoldCase != 0
		var rs []*Term
		add := func(lo, hi rune) {
			if lo > 255 {
				return
			}
			if hi > 255 {
				hi = 255
			}
			if lo == hi {
				rs = append(rs, Eq(c, IntC(int64(lo))))
			} else {
				rs = append(rs, And(Le(IntC(int64(lo)), c), Le(c, IntC(int64(hi)))))
			}
		}
		runes := in.Rune
		if len(runes) == 1 {
			runes = []rune{runes[0], runes[0]}
		}
		for j := 0; j+1 < len(runes); j += 2 {
			lo, hi := runes[j], runes[j+1]
			add(lo, hi)
			if fold {
				// ASCII case folding of the overlap with letters
				for r := lo; r <= hi && r < 128; r++ {
					if r >= 'a' && r <= 'z' {
						add(r-32, r-32)
					} else if r >= 'A' && r <= 'Z' {
						add(r+32, r+32)
					}
				}
			}
		}
		return Or(rs...), nil
	}
	return nil, fmt.Errorf("instruction %v", in.Op)
}

// regexBounded returns the condition "pattern matches somewhere in s" for len(s) <= n.
func regexBounded(prog *syntax.Prog, s *Term, n int64) (*Term, error) {
	ln := StrLen(s)
	matched := False
	active := map[uint32]*Term{}
	var firstErr error
	for i := int64(0); i <= n; i++ {
		// closure over empty-width instructions at position i
		consuming := map[uint32]*Term{}
		var add func(pc uint32, cond *Term, depth int)
		seen := map[uint32]*Term{}
		add = func(pc uint32, cond *Term, depth int) {
			if cond.IsConst() && !cond.B {
				return
			}
			if depth > 10000 {
				firstErr = fmt.Errorf("regexp closure too deep")
				return
			}
			if old, ok := seen[pc]; ok {
				nc := Or(old, cond)
				if nc == old {
					return
				}
				seen[pc] = nc
			} else {
				seen[pc] = cond
			}
			in := &prog.Inst[pc]
			switch in.Op {
			case syntax.InstAlt, syntax.InstAltMatch:
				add(in.Out, cond, depth+1)
				add(in.Arg, cond, depth+1)
			case syntax.InstCapture, syntax.InstNop:
				add(in.Out, cond, depth+1)
			case syntax.InstEmptyWidth:
				e := syntax.EmptyOp(in.Arg)
				c := cond
				if e&syntax.EmptyBeginText != 0 {
					c = And(c, BoolC(i == 0))
				}
				if e&syntax.EmptyEndText != 0 {
					c = And(c, Eq(ln, IntC(i)))
				}
				if e&^(syntax.EmptyBeginText|syntax.EmptyEndText) != 0 {
					firstErr = fmt.Errorf("regexp assertion %v not supported", e)
					return
				}
				add(in.Out, c, depth+1)
			case syntax.InstMatch:
				matched = Or(matched, cond)
			case syntax.InstFail:
			default:
				if old, ok := consuming[pc]; ok {
					consuming[pc] = Or(old, cond)
				} else {
					consuming[pc] = cond
				}
			}
		}
		// threads carried over from the previous character
		for pc, c := range active {
			add(pc, c, 0)
		}
		// unanchored search: a new thread may start at every position <= len
		add(uint32(prog.Start), Le(IntC(i), ln), 0)
		if firstErr != nil {
			return nil, firstErr
		}
		if i == n {
			break
		}
		c := charCode(s, i)
		next := map[uint32]*Term{}
		for pc, cond := range consuming {
			in := &prog.Inst[pc]
			m, err := instMatches(in, c)
			if err != nil {
				return nil, err
			}
			nc := And(cond, Lt(IntC(i), ln), m)
			if old, ok := next[in.Out]; ok {
				next[in.Out] = Or(old, nc)
			} else {
				next[in.Out] = nc
			}
		}
		active = next
	}
	return matched, nil
}

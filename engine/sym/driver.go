package sym

// driver.go: path exploration by re-execution over a shared work list, one solver per worker.

import (
	"fmt"
	"os"
	"runtime/debug"
	"sort"
	"strings"
	"sync"
	"time"

	"golang.org/x/tools/go/ssa"
)

type Options struct {
	SampleEvery  int // keep every n-th query of each worker for the z3 cross-check (0 = off)
	SampleOffset int
	Workers  int
	TlimitMs int
	MaxPaths int
	Unwind   int
	KeepLog  bool
	Trace    bool
}

type Violation struct {
	Entry     string            `json:"entry"`
	Label     string            `json:"label"`
	Kind      string            `json:"kind"` // "assert" | "panic"
	Model     map[string]string `json:"model"`
	Decisions []int             `json:"decisions"`
	Detail    string            `json:"detail,omitempty"`
}

type PathSample struct {
	Decisions string            `json:"decisions"`
	PCSize    int               `json:"pc_size"`
	Outcome   string            `json:"outcome"`
	Asserts   []string          `json:"asserts,omitempty"`
	Model     map[string]string `json:"model,omitempty"`
}

type Result struct {
	Entry        string
	Paths        int // completed paths
	Aborted      int // infeasible / assumed-away paths
	Transitions  int // branch decisions taken
	AssertsTotal int // assertion instances reached
	AssertsSMT   int // assertion instances that needed the solver
	ByLabel      map[string]*LabelStat
	Violations   []Violation
	Inconclusive []string
	Reached      map[string]int
	Notes        []string
	Skipped      []string
	Funcs        map[string]bool
	Queries      int
	NSat, NUnsat int
	NUnknown     int
	SolverSec    float64
	SolverErrors []string
	Samples      []PathSample
	WallSec      float64
	Log          string
	NontrivPaths int // paths that reached an assertion needing the solver
	KnownHits    []string
	Witnesses    []WitnessRec
	Samples2     []SampledQuery // queries kept for the differential pass
}

type LabelStat struct {
	Reached, Proved, Failed, Trivial int
}

// Run explores all paths of entry (a niladic function of the root package).
func (p *Program) Run(entry string, opt Options) *Result {
	fn := p.Root.Func(entry)
	res := &Result{Entry: entry, ByLabel: map[string]*LabelStat{}, Reached: map[string]int{}, Funcs: map[string]bool{}}
	if fn == nil {
		res.Inconclusive = append(res.Inconclusive, "entry function not found: "+entry)
		return res
	}
	if opt.Workers <= 0 {
		opt.Workers = 1
	}
	if opt.TlimitMs <= 0 {
		opt.TlimitMs = 20000
	}
	t0 := time.Now()
	var mu sync.Mutex
	cond := sync.NewCond(&mu)
	running := map[int]*Exec{}
	work := [][]int{{}}
	active := 0
	started := 0
	stop := false

	if os.Getenv("GOSYM_PROGRESS") != "" {
		go func() {
			for {
				time.Sleep(10 * time.Second)
				mu.Lock()
				if stop || (len(work) == 0 && active == 0) {
					mu.Unlock()
					return
				}
				fmt.Fprintf(os.Stderr, "[progress %s] paths=%d aborted=%d queued=%d active=%d violations=%d inconclusive=%d %.0fs\n", entry, res.Paths, res.Aborted, len(work), active, len(res.Violations), len(res.Inconclusive), time.Since(t0).Seconds())
				if active <= 2 {
					for w, ex := range running {
						if ex != nil {
							fmt.Fprintf(os.Stderr, "   worker %d: prefix=%s decisions=%s steps=%d queries=%d\n", w, decString(ex.prefix), decString(ex.decs), ex.steps, ex.S.Queries)
						}
					}
				}
				mu.Unlock()
			}
		}()
	}
	var wg sync.WaitGroup
	for w := 0; w < opt.Workers; w++ {
		wg.Add(1)
		go func(w int) {
			defer wg.Done()
			solver, err := NewSolver("cvc5", opt.TlimitMs, opt.KeepLog && w == 0)
			if err != nil {
				mu.Lock()
				res.Inconclusive = append(res.Inconclusive, "cannot start solver: "+err.Error())
				stop = true
				cond.Broadcast()
				mu.Unlock()
				return
			}
			solver.SampleEvery, solver.SampleOffset, solver.SampleMax = opt.SampleEvery, opt.SampleOffset+w, 4
			defer func() {
				mu.Lock()
				res.Samples2 = append(res.Samples2, solver.Samples...)
				res.Queries += solver.Queries
				res.NSat += solver.NSat
				res.NUnsat += solver.NUnsat
				res.NUnknown += solver.NUnknown
				res.SolverSec += solver.Seconds
				for _, e := range solver.Errors {
					if len(res.SolverErrors) < 20 {
						res.SolverErrors = append(res.SolverErrors, e)
					}
				}
				if w == 0 {
					res.Log = solver.Log()
				}
				mu.Unlock()
				solver.Close()
			}()
			for {
				mu.Lock()
				for len(work) == 0 && active > 0 && !stop {
					cond.Wait()
				}
				if stop || (len(work) == 0 && active == 0) {
					cond.Broadcast()
					mu.Unlock()
					return
				}
				prefix := work[len(work)-1]
				work = work[:len(work)-1]
				active++
				started++
				if opt.MaxPaths > 0 && started > opt.MaxPaths {
					res.Inconclusive = appendUniq(res.Inconclusive, fmt.Sprintf("path budget %d exceeded", opt.MaxPaths))
					stop = true
					active--
					cond.Broadcast()
					mu.Unlock()
					return
				}
				mu.Unlock()

				ex := NewExec(p, solver, prefix)
				if opt.Unwind > 0 {
					ex.Unwind = opt.Unwind
				}
				ex.Trace = opt.Trace
				ex.entry = entry
				mu.Lock()
				running[w] = ex
				mu.Unlock()
				outcome, viol := p.runPath(ex, fn)

				mu.Lock()
				active--
				running[w] = nil
				work = append(work, ex.forks...)
				res.Transitions += len(ex.decs) - len(prefix)
				switch {
				case strings.HasPrefix(outcome, "abort"):
					res.Aborted++
				case strings.HasPrefix(outcome, "inconclusive"):
					res.Inconclusive = appendUniq(res.Inconclusive, outcome)
					res.Paths++
				default:
					res.Paths++
				}
				if ex.unknowns > 0 {
					res.Inconclusive = appendUniq(res.Inconclusive, "solver returned unknown on a feasibility or assertion query")
				}
				nontriv := false
				for _, a := range ex.Asserts {
					ls := res.ByLabel[a.Label]
					if ls == nil {
						ls = &LabelStat{}
						res.ByLabel[a.Label] = ls
					}
					ls.Reached++
					res.AssertsTotal++
					switch {
					case a.Result == -1:
						ls.Trivial++
						ls.Proved++
					case a.Holds:
						ls.Proved++
						res.AssertsSMT++
						nontriv = true
					default:
						ls.Failed++
						res.AssertsSMT++
						nontriv = true
					}
				}
				if nontriv {
					res.NontrivPaths++
				}
				for k, v := range ex.Reached {
					res.Reached[k] += v
				}
				for _, n := range ex.Notes {
					res.Notes = appendUniq(res.Notes, n)
				}
				for _, n := range ex.Skipped {
					res.Skipped = appendUniq(res.Skipped, n)
				}
				for f := range ex.Funcs {
					if f.Pkg != nil && strings.HasPrefix(f.Pkg.Pkg.Path(), AuthbossMod) {
						res.Funcs[f.String()] = true
					}
				}
				res.Violations = append(res.Violations, viol...)
				for _, h := range ex.KnownHits {
					res.KnownHits = appendUniq(res.KnownHits, h)
				}
				for _, w := range ex.Witnesses {
					dup := false
					for _, o := range res.Witnesses {
						if o.Label == w.Label {
							dup = true
						}
					}
					if !dup {
						res.Witnesses = append(res.Witnesses, w)
					}
				}
				if len(res.Samples) < 6 || (len(viol) > 0 && len(res.Samples) < 12) {
					ps := PathSample{Decisions: decString(ex.decs), PCSize: len(ex.pc), Outcome: outcome}
					for _, a := range ex.Asserts {
						st := "proved"
						if a.Result == -1 {
							st = "trivially-true"
						} else if !a.Holds {
							st = "FAILED"
						}
						ps.Asserts = append(ps.Asserts, a.Label+":"+st)
					}
					if len(viol) > 0 {
						ps.Model = viol[0].Model
					}
					res.Samples = append(res.Samples, ps)
				}
				cond.Broadcast()
				mu.Unlock()
			}
		}(w)
	}
	wg.Wait()
	res.WallSec = time.Since(t0).Seconds()
	sort.Slice(res.Violations, func(i, j int) bool { return res.Violations[i].Label < res.Violations[j].Label })
	return res
}

func decString(d []int) string {
	var sb strings.Builder
	for _, x := range d {
		if x < 10 {
			sb.WriteByte(byte('0' + x))
		} else {
			fmt.Fprintf(&sb, "(%d)", x)
		}
	}
	return sb.String()
}

// runPath executes one path; returns an outcome string and violations found.
func (p *Program) runPath(ex *Exec, entry *ssa.Function) (outcome string, viol []Violation) {
	defer func() {
		r := recover()
		// a panic inside a query may have left a temporary scope open
		for len(ex.S.scopes) > 0 {
			ex.S.Pop()
		}
		for _, a := range ex.Asserts {
			if !a.Holds {
				viol = append(viol, Violation{Entry: entry.Name(), Label: a.Label, Kind: "assert", Model: a.Model, Decisions: append([]int{}, ex.decs...)})
			}
		}
		switch x := r.(type) {
		case nil:
		case PathAbort:
			outcome = "abort: " + x.Why
		case Inconclusive:
			outcome = "inconclusive: " + x.Msg
		case *GoPanic:
			// uncaught Go panic in the harness: report as a violation of the implicit no-panic assertion
			msg := describe(x.V)
			model := ex.model()
			viol = append(viol, Violation{Entry: entry.Name(), Label: "uncaught-panic", Kind: "panic", Model: model,
				Decisions: append([]int{}, ex.decs...), Detail: x.Site + ": " + msg})
			outcome = "panic: " + x.Site + ": " + msg
		default:
			outcome = fmt.Sprintf("inconclusive: engine fault: %v\n%s", r, string(debug.Stack()))
		}
	}()
	if init := p.Root.Func("init"); init != nil {
		ex.CallFunction(nil, init, nil, nil)
	}
	ex.CallFunction(nil, entry, nil, nil)
	return "ok", nil
}

// model asks the solver for values of all declared inputs under the current path condition.
func (ex *Exec) model(extra ...*Term) map[string]string {
	if len(ex.Inputs) == 0 {
		return map[string]string{}
	}
	r, m := ex.Check(extra, ex.Inputs)
	out := map[string]string{}
	if r != Sat {
		out["_status"] = r.String()
		return out
	}
	for _, in := range ex.Inputs {
		out[ex.InputLbl[in.ID]] = m[in.ID]
	}
	return out
}

// CheckAssert discharges cond under the current path condition.
func (ex *Exec) CheckAssert(cond *Term, label string) {
	if cond.IsConst() && cond.B {
		ex.Asserts = append(ex.Asserts, AssertResult{Label: label, Holds: true, Result: -1})
		return
	}
	neg := Not(cond)
	r, m := ex.Check([]*Term{neg}, ex.Inputs)
	switch r {
	case Unsat:
		ex.Asserts = append(ex.Asserts, AssertResult{Label: label, Holds: true, Result: Unsat})
	case Sat:
		// known-finding regions: a failure is only a (new) violation if it also occurs outside
		// every active known region declared by the harness on this path
		var excl []*Term
		for _, k := range ex.known {
			if ActiveKnown[k.id] {
				excl = append(excl, Not(k.cond))
			}
		}
		if len(excl) > 0 {
			for _, k := range ex.known {
				if ActiveKnown[k.id] {
					if rk, _ := ex.Check([]*Term{neg, k.cond}, nil); rk == Sat {
						ex.KnownHits = appendUniq(ex.KnownHits, k.id)
					}
				}
			}
			r2, m2 := ex.Check(append([]*Term{neg}, excl...), ex.Inputs)
			if r2 == Unsat {
				ex.Asserts = append(ex.Asserts, AssertResult{Label: label, Holds: true, Result: Unsat})
				ex.Assume(cond)
				return
			}
			if r2 == Unknown {
				ex.unknowns++
				ex.Asserts = append(ex.Asserts, AssertResult{Label: label, Holds: true, Result: Unknown})
				return
			}
			m = m2
		}
		model := map[string]string{}
		for _, in := range ex.Inputs {
			model[ex.InputLbl[in.ID]] = m[in.ID]
		}
		ex.Asserts = append(ex.Asserts, AssertResult{Label: label, Holds: false, Result: Sat, Model: model})
		// continue on the side where the assertion holds, if any
		ex.Assume(cond)
	default:
		ex.unknowns++
		ex.Asserts = append(ex.Asserts, AssertResult{Label: label, Holds: true, Result: Unknown})
	}
}

package sym

// data.go: slices, arrays, maps, strings, ranges, builtins.

import (
	"fmt"
	"go/types"
	"unicode/utf8"

	"golang.org/x/tools/go/ssa"
)

func (ex *Exec) boundsPanic(fr *frame, what string) {
	ex.goPanic(fr.fn.String(), "runtime error: "+what+" out of range")
}

// inRange decides 0 <= i < n; panics (Go-level) on the out-of-range side.
func (ex *Exec) checkIndex(fr *frame, i, n *Term) {
	if !ex.Decide(And(Le(IntC(0), i), Lt(i, n))) {
		ex.boundsPanic(fr, "index")
	}
}

func (ex *Exec) indexAddr(fr *frame, in *ssa.IndexAddr) Value {
	x := ex.get(fr, in.X)
	idx := ex.get(fr, in.Index).(*Term)
	switch s := x.(type) {
	case *ByteSlice:
		if s == nil {
			ex.boundsPanic(fr, "index")
		}
		ex.checkIndex(fr, idx, s.Len)
		return &BytePtr{A: s.A, Idx: Add(s.Off, idx)}
	case *SliceV:
		n := 0
		if s != nil {
			n = s.Len
		}
		i, ok := ex.ConcretizeInt(idx, 0, int64(n), "index")
		if !ok {
			ex.boundsPanic(fr, "index")
		}
		return s.A.E[s.Off+int(i)]
	case *Cell:
		if s == nil {
			ex.goPanic(fr.fn.String(), "runtime error: invalid memory address or nil pointer dereference")
		}
		switch a := s.V.(type) {
		case *ByteArr:
			ex.checkIndex(fr, idx, StrLen(a.S))
			return &BytePtr{A: a, Idx: idx}
		case *Array:
			i, ok := ex.ConcretizeInt(idx, 0, int64(len(a.E)), "index")
			if !ok {
				ex.boundsPanic(fr, "index")
			}
			return a.E[i]
		}
	}
	panic(Inconclusive{fmt.Sprintf("IndexAddr on %s in %s", describe(x), fr.fn)})
}

// tableLookup: a constant string indexed by a symbolic integer becomes one if-then-else term
// over the positions (no fork per position); nil when it does not apply.
func tableLookup(m, idx *Term) *Term {
	if !m.IsConst() || idx.IsConst() || len(m.S) == 0 || len(m.S) > 64 {
		return nil
	}
	res := IntC(int64(m.S[len(m.S)-1]))
	for i := len(m.S) - 2; i >= 0; i-- {
		res = Ite(Eq(idx, IntC(int64(i))), IntC(int64(m.S[i])), res)
	}
	return res
}

func (ex *Exec) indexValue(fr *frame, in *ssa.Index) Value {
	x := ex.get(fr, in.X)
	idx := ex.get(fr, in.Index).(*Term)
	switch a := x.(type) {
	case *ByteArr:
		ex.checkIndex(fr, idx, StrLen(a.S))
		return ByteAt(a.S, idx)
	case *Array:
		i, ok := ex.ConcretizeInt(idx, 0, int64(len(a.E)), "index")
		if !ok {
			ex.boundsPanic(fr, "index")
		}
		return copyVal(a.E[i].V)
	case *Term: // string (generic code, constant tables)
		ex.checkIndex(fr, idx, StrLen(a))
		if t := tableLookup(a, idx); t != nil {
			return t
		}
		return ByteAt(a, idx)
	}
	panic(Inconclusive{fmt.Sprintf("Index on %s", describe(x))})
}

func (ex *Exec) lookup(fr *frame, in *ssa.Lookup) Value {
	x := ex.get(fr, in.X)
	k := ex.get(fr, in.Index)
	switch m := x.(type) {
	case *Term: // string index
		idx := k.(*Term)
		ex.checkIndex(fr, idx, StrLen(m))
		if t := tableLookup(m, idx); t != nil {
			return t
		}
		if n := StrLen(m); IsCharList(m) && n.IsConst() && !idx.IsConst() {
			if v, ok := ex.ConcretizeInt(idx, 0, n.I.Int64(), "string index"); ok {
				idx = IntC(v)
			}
		}
		return ByteAt(m, idx)
	case *Map:
		vt := in.X.Type().Underlying().(*types.Map).Elem()
		v, ok := ex.mapLookup(m, k)
		if !ok {
			v = zero(vt)
		}
		if in.CommaOk {
			return Tuple{copyVal(v), BoolC(ok)}
		}
		return copyVal(v)
	}
	panic(Inconclusive{fmt.Sprintf("Lookup on %s", describe(x))})
}

func (ex *Exec) mapFind(m *Map, k Value) int {
	if m == nil {
		return -1
	}
	for i, mk := range m.Keys {
		if ex.Decide(ex.equal(mk, k)) {
			return i
		}
	}
	return -1
}

func (ex *Exec) mapLookup(m *Map, k Value) (Value, bool) {
	i := ex.mapFind(m, k)
	if i < 0 {
		return nil, false
	}
	return m.Vals[i], true
}

func (ex *Exec) mapUpdate(m *Map, k, v Value) {
	i := ex.mapFind(m, k)
	if i >= 0 {
		m.Vals[i] = copyVal(v)
		return
	}
	m.Keys = append(m.Keys, k)
	m.Vals = append(m.Vals, copyVal(v))
}

func (ex *Exec) mapDelete(m *Map, k Value) {
	i := ex.mapFind(m, k)
	if i < 0 {
		return
	}
	m.Keys = append(append([]Value{}, m.Keys[:i]...), m.Keys[i+1:]...)
	m.Vals = append(append([]Value{}, m.Vals[:i]...), m.Vals[i+1:]...)
}

func (ex *Exec) makeSlice(fr *frame, in *ssa.MakeSlice) Value {
	et := in.Type().Underlying().(*types.Slice).Elem()
	l := ex.get(fr, in.Len).(*Term)
	c := ex.get(fr, in.Cap).(*Term)
	if isByteType(et) {
		if !ex.Decide(And(Le(IntC(0), l), Le(l, c))) {
			ex.goPanic(fr.fn.String(), "runtime error: makeslice: len out of range")
		}
		return &ByteSlice{A: &ByteArr{S: Zeros(c)}, Off: IntC(0), Len: l, Cap: c}
	}
	ci, ok := ex.ConcretizeInt(c, 0, 1<<16, "makeslice cap")
	if !ok {
		panic(Inconclusive{"makeslice with unbounded symbolic cap in " + fr.fn.String()})
	}
	li, ok := ex.ConcretizeInt(l, 0, ci+1, "makeslice len")
	if !ok {
		ex.goPanic(fr.fn.String(), "runtime error: makeslice: len out of range")
	}
	a := &Array{E: make([]*Cell, ci)}
	for i := range a.E {
		a.E[i] = &Cell{V: zero(et)}
	}
	return &SliceV{A: a, Off: 0, Len: int(li), Cap: int(ci)}
}

func (ex *Exec) slice(fr *frame, in *ssa.Slice) Value {
	x := ex.get(fr, in.X)
	var lo, hi, max *Term
	if in.Low != nil {
		lo = ex.get(fr, in.Low).(*Term)
	}
	if in.High != nil {
		hi = ex.get(fr, in.High).(*Term)
	}
	if in.Max != nil {
		max = ex.get(fr, in.Max).(*Term)
	}
	if lo == nil {
		lo = IntC(0)
	}
	switch s := x.(type) {
	case *Term: // string
		n := StrLen(s)
		if hi == nil {
			hi = n
		}
		if !ex.Decide(And(Le(IntC(0), lo), Le(lo, hi), Le(hi, n))) {
			ex.boundsPanic(fr, "slice bounds")
		}
		if IsCharList(s) && n.IsConst() {
			// character lists stay structural: fork on symbolic offsets (small range)
			if !lo.IsConst() {
				if v, ok := ex.ConcretizeInt(lo, 0, n.I.Int64()+1, "slice lo"); ok {
					lo = IntC(v)
				}
			}
			if !hi.IsConst() {
				if v, ok := ex.ConcretizeInt(hi, 0, n.I.Int64()+1, "slice hi"); ok {
					hi = IntC(v)
				}
			}
		}
		return SubstrIn(s, lo, Sub(hi, lo))
	case *ByteSlice:
		if s == nil {
			s = &ByteSlice{A: &ByteArr{S: StrC("")}, Off: IntC(0), Len: IntC(0), Cap: IntC(0)}
			if hi == nil {
				hi = IntC(0)
			}
			if !ex.Decide(And(Eq(lo, IntC(0)), Eq(hi, IntC(0)))) {
				ex.boundsPanic(fr, "slice bounds")
			}
			return (*ByteSlice)(nil)
		}
		if hi == nil {
			hi = s.Len
		}
		cp := s.Cap
		if max != nil {
			if !ex.Decide(And(Le(hi, max), Le(max, s.Cap))) {
				ex.boundsPanic(fr, "slice bounds")
			}
			cp = max
		}
		if !ex.Decide(And(Le(IntC(0), lo), Le(lo, hi), Le(hi, s.Cap))) {
			ex.boundsPanic(fr, "slice bounds")
		}
		return &ByteSlice{A: s.A, Off: Add(s.Off, lo), Len: Sub(hi, lo), Cap: Sub(cp, lo)}
	case *SliceV:
		n, c := 0, 0
		if s != nil {
			n, c = s.Len, s.Cap
		}
		l, ok1 := ex.ConcretizeInt(lo, 0, int64(c)+1, "slice lo")
		h := int64(n)
		ok2 := true
		if hi != nil {
			h, ok2 = ex.ConcretizeInt(hi, 0, int64(c)+1, "slice hi")
		}
		m := int64(c)
		ok3 := true
		if max != nil {
			m, ok3 = ex.ConcretizeInt(max, 0, int64(c)+1, "slice max")
		}
		if !ok1 || !ok2 || !ok3 || l > h || h > m {
			ex.boundsPanic(fr, "slice bounds")
		}
		if s == nil {
			return (*SliceV)(nil)
		}
		return &SliceV{A: s.A, Off: s.Off + int(l), Len: int(h - l), Cap: int(m - l)}
	case *Cell:
		if s == nil {
			ex.goPanic(fr.fn.String(), "runtime error: invalid memory address or nil pointer dereference")
		}
		switch a := s.V.(type) {
		case *ByteArr:
			n := StrLen(a.S)
			if hi == nil {
				hi = n
			}
			cp := n
			if max != nil {
				cp = max
			}
			if !ex.Decide(And(Le(IntC(0), lo), Le(lo, hi), Le(hi, cp), Le(cp, n))) {
				ex.boundsPanic(fr, "slice bounds")
			}
			return &ByteSlice{A: a, Off: lo, Len: Sub(hi, lo), Cap: Sub(cp, lo)}
		case *Array:
			n := int64(len(a.E))
			l, ok1 := ex.ConcretizeInt(lo, 0, n+1, "slice lo")
			h := n
			ok2 := true
			if hi != nil {
				h, ok2 = ex.ConcretizeInt(hi, 0, n+1, "slice hi")
			}
			m := n
			ok3 := true
			if max != nil {
				m, ok3 = ex.ConcretizeInt(max, 0, n+1, "slice max")
			}
			if !ok1 || !ok2 || !ok3 || l > h || h > m {
				ex.boundsPanic(fr, "slice bounds")
			}
			return &SliceV{A: a, Off: int(l), Len: int(h - l), Cap: int(m - l)}
		}
	}
	panic(Inconclusive{fmt.Sprintf("Slice of %s in %s", describe(x), fr.fn)})
}

// ---- range

type mapIter struct {
	keys, vals []Value
	i          int
}
type strIter struct {
	s   *Term
	pos *Term
}

func (ex *Exec) rangeIter(fr *frame, in *ssa.Range) Value {
	x := ex.get(fr, in.X)
	switch m := x.(type) {
	case *Map:
		it := &mapIter{}
		if m != nil {
			it.keys = append(it.keys, m.Keys...)
			it.vals = append(it.vals, m.Vals...)
		}
		return &Opaque{Kind: "mapiter", Data: it}
	case *Term:
		return &Opaque{Kind: "striter", Data: &strIter{s: ex.resolveIte(m), pos: IntC(0)}}
	}
	panic(Inconclusive{"range over " + describe(x)})
}

func (ex *Exec) next(fr *frame, in *ssa.Next) Value {
	it := ex.get(fr, in.Iter).(*Opaque)
	switch d := it.Data.(type) {
	case *mapIter:
		if d.i >= len(d.keys) {
			tt := in.Type().(*types.Tuple)
			return Tuple{False, zeroOrNil(tt.At(1).Type()), zeroOrNil(tt.At(2).Type())}
		}
		k, v := d.keys[d.i], d.vals[d.i]
		d.i++
		return Tuple{True, k, copyVal(v)}
	case *strIter:
		n := StrLen(d.s)
		if !ex.Decide(Lt(d.pos, n)) {
			return Tuple{False, IntC(0), IntC(0)}
		}
		if d.s.IsConst() && d.pos.IsConst() {
			p := int(d.pos.I.Int64())
			r, sz := utf8.DecodeRuneInString(d.s.S[p:])
			d.pos = IntC(int64(p + sz))
			return Tuple{True, IntC(int64(p)), IntC(int64(r))}
		}
		b := ByteAt(d.s, d.pos)
		if !ex.Decide(Lt(b, IntC(128))) {
			ex.Skipped = appendUniq(ex.Skipped, "range over symbolic string: non-ASCII byte path not explored ("+fr.fn.String()+")")
			panic(PathAbort{"non-ascii range"})
		}
		p := d.pos
		d.pos = Add(d.pos, IntC(1))
		return Tuple{True, p, b}
	}
	panic(Inconclusive{"next on " + it.Kind})
}

func zeroOrNil(t types.Type) Value {
	if b, ok := t.(*types.Basic); ok && b.Kind() == types.Invalid {
		return nil
	}
	return zero(t)
}

// ---- builtins

func (ex *Exec) builtin(fr *frame, b *ssa.Builtin, args []Value, cc *ssa.CallCommon, deferred bool) Value {
	switch b.Name() {
	case "len":
		switch x := args[0].(type) {
		case *Term:
			return StrLen(x)
		case *ByteSlice:
			if x == nil {
				return IntC(0)
			}
			return x.Len
		case *SliceV:
			if x == nil {
				return IntC(0)
			}
			return IntC(int64(x.Len))
		case *Map:
			if x == nil {
				return IntC(0)
			}
			return IntC(int64(len(x.Keys)))
		case *Array:
			return IntC(int64(len(x.E)))
		case *ByteArr:
			return StrLen(x.S)
		case *Cell:
			switch a := x.V.(type) {
			case *Array:
				return IntC(int64(len(a.E)))
			case *ByteArr:
				return StrLen(a.S)
			}
		}
	case "cap":
		switch x := args[0].(type) {
		case *ByteSlice:
			if x == nil {
				return IntC(0)
			}
			return x.Cap
		case *SliceV:
			if x == nil {
				return IntC(0)
			}
			return IntC(int64(x.Cap))
		case *Array:
			return IntC(int64(len(x.E)))
		case *ByteArr:
			return StrLen(x.S)
		}
	case "append":
		return ex.appendBuiltin(fr, args[0], args[1])
	case "copy":
		return ex.copyBuiltin(fr, args[0], args[1])
	case "delete":
		m := args[0].(*Map)
		if m != nil {
			ex.sharedMapWrite(fr, m)
			ex.mapDelete(m, args[1])
		}
		return nil
	case "print", "println":
		return nil
	case "recover":
		// called from a deferred function: the panicking frame is our caller's caller chain
		for f := fr.caller; f != nil; f = f.caller {
			if f.panicking != nil {
				v := f.panicking.V
				f.panicking = nil
				return v
			}
			break
		}
		return (*Iface)(nil)
	case "min", "max":
		a, b2 := args[0].(*Term), args[1].(*Term)
		if b.Name() == "min" {
			return Ite(Le(a, b2), a, b2)
		}
		return Ite(Le(a, b2), b2, a)
	case "ssa:wrapnilchk":
		recv := args[0]
		if c, ok := recv.(*Cell); ok && c == nil {
			ex.goPanic(fr.fn.String(), "value method called using nil pointer")
		}
		return recv
	}
	panic(Inconclusive{fmt.Sprintf("builtin %s on %s in %s", b.Name(), describe(args[0]), fr.fn)})
}

func (ex *Exec) appendBuiltin(fr *frame, s, t Value) Value {
	switch x := s.(type) {
	case *ByteSlice:
		var add *Term
		switch y := t.(type) {
		case *Term:
			add = y
		case *ByteSlice:
			if y == nil {
				return x
			}
			add = SubstrIn(y.A.S, y.Off, y.Len)
		default:
			panic(Inconclusive{"append bytes of " + describe(t)})
		}
		n := StrLen(add)
		if x == nil {
			if n.IsConst() && n.I.Sign() == 0 {
				return x
			}
			return &ByteSlice{A: &ByteArr{S: add}, Off: IntC(0), Len: n, Cap: n}
		}
		if n.IsConst() && n.I.Sign() == 0 {
			return x
		}
		nl := Add(x.Len, n)
		if ex.Decide(Le(nl, x.Cap)) {
			x.A.S = writeRegion(x.A.S, Add(x.Off, x.Len), n, add)
			return &ByteSlice{A: x.A, Off: x.Off, Len: nl, Cap: x.Cap}
		}
		ns := Concat(SubstrIn(x.A.S, x.Off, x.Len), add)
		return &ByteSlice{A: &ByteArr{S: ns}, Off: IntC(0), Len: nl, Cap: nl}
	case *SliceV:
		y, _ := t.(*SliceV)
		if y == nil || y.Len == 0 {
			return x
		}
		if x == nil {
			x = &SliceV{A: &Array{}}
		}
		if x.Len+y.Len <= x.Cap {
			if ex.shared != nil && ex.shared.on && ex.shared.arrs[x.A] {
				ex.noteSharedWrite(fr, "the spare capacity of a slice that outlives the request (append in place)")
			}
			for i := 0; i < y.Len; i++ {
				storeInto(x.A.E[x.Off+x.Len+i], y.A.E[y.Off+i].V)
			}
			return &SliceV{A: x.A, Off: x.Off, Len: x.Len + y.Len, Cap: x.Cap}
		}
		// reallocate with Go-like doubling so aliasing behaviour resembles the runtime's
		nc := x.Cap * 2
		if nc < x.Len+y.Len {
			nc = x.Len + y.Len
		}
		a := &Array{E: make([]*Cell, nc)}
		var zt Value
		for i := 0; i < x.Len; i++ {
			a.E[i] = &Cell{V: copyVal(x.A.E[x.Off+i].V)}
		}
		for i := 0; i < y.Len; i++ {
			a.E[x.Len+i] = &Cell{V: copyVal(y.A.E[y.Off+i].V)}
			zt = y.A.E[y.Off+i].V
		}
		for i := x.Len + y.Len; i < nc; i++ {
			a.E[i] = &Cell{V: zeroLike(zt)}
		}
		return &SliceV{A: a, Off: 0, Len: x.Len + y.Len, Cap: nc}
	}
	panic(Inconclusive{"append to " + describe(s)})
}

// zeroLike builds a zero value shaped like v (used for spare capacity cells).
func zeroLike(v Value) Value {
	switch x := v.(type) {
	case *Term:
		switch x.Sort {
		case SBool:
			return False
		case SInt:
			return IntC(0)
		}
		return StrC("")
	case *Struct:
		n := &Struct{F: make([]*Cell, len(x.F))}
		for i := range x.F {
			n.F[i] = &Cell{V: zeroLike(x.F[i].V)}
		}
		return n
	case *Cell:
		return (*Cell)(nil)
	case *Iface:
		return (*Iface)(nil)
	case *Closure:
		return (*Closure)(nil)
	case *Map:
		return (*Map)(nil)
	case *SliceV:
		return (*SliceV)(nil)
	case *ByteSlice:
		return (*ByteSlice)(nil)
	case float64:
		return float64(0)
	}
	return nil
}

func (ex *Exec) copyBuiltin(fr *frame, dst, src Value) Value {
	switch d := dst.(type) {
	case *ByteSlice:
		if d == nil {
			return IntC(0)
		}
		var s *Term
		switch y := src.(type) {
		case *Term:
			s = y
		case *ByteSlice:
			if y == nil {
				return IntC(0)
			}
			s = SubstrIn(y.A.S, y.Off, y.Len)
		}
		ls := StrLen(s)
		var n *Term
		if ex.Decide(Le(ls, d.Len)) {
			n = ls
		} else {
			n = d.Len
		}
		if n.IsConst() && n.I.Sign() == 0 {
			return n
		}
		d.A.S = writeRegion(d.A.S, d.Off, n, SubstrIn(s, IntC(0), n))
		return n
	case *SliceV:
		y, _ := src.(*SliceV)
		if d == nil || y == nil {
			return IntC(0)
		}
		n := d.Len
		if y.Len < n {
			n = y.Len
		}
		tmp := make([]Value, n)
		for i := 0; i < n; i++ {
			tmp[i] = copyVal(y.A.E[y.Off+i].V)
		}
		for i := 0; i < n; i++ {
			storeInto(d.A.E[d.Off+i], tmp[i])
		}
		return IntC(int64(n))
	}
	panic(Inconclusive{"copy into " + describe(dst)})
}

// resolveIte forks on the conditions of a string-valued ite so that structural operations
// (ranging, splitting, indexing) see the concrete shape of the selected branch.
func (ex *Exec) resolveIte(t *Term) *Term {
	for t.Op == "ite" && t.Sort == SStr {
		if ex.Decide(t.Args[0]) {
			t = t.Args[1]
		} else {
			t = t.Args[2]
		}
	}
	return t
}

package sym

// smt.go: long-lived solver processes (cvc5 deciding; z3 / z3-new differential), declaration
// tracking, UF axiom instantiation, query logging, model extraction.

import (
	"bufio"
	"os"
	"fmt"
	"io"
	"math/big"
	"os/exec"
	"strconv"
	"strings"
	"time"
)

type SatResult int

const (
	Unsat SatResult = iota
	Sat
	Unknown
)

func (r SatResult) String() string { return [...]string{"unsat", "sat", "unknown"}[r] }

// UFSig describes an uninterpreted function.
type UFSig struct {
	Name string
	Args []Sort
	Res  Sort
}

// Axiom instantiators: given all applications of UFs in a query, produce extra assertions.
type AxiomFn func(newApp *Term, existing []*Term) []*Term

type Solver struct {
	name     string
	cmd      *exec.Cmd
	in       io.WriteCloser
	out      *bufio.Reader
	declared map[string]bool
	Queries  int
	NSat     int
	NUnsat   int
	NUnknown int
	Seconds  float64
	Errors   []string
	log      *strings.Builder // full script log for differential replay
	tlimitMs int
	dead     bool
	scopes   []*scope
	shared   []int
	cursor   int
	// differential sampling
	SampleEvery  int
	SampleOffset int
	SampleMax    int
	Samples      []SampledQuery
}

// SlowLog, if set, is called for queries slower than 2 s.
var SlowLog func(sec float64, res SatResult, extra []*Term)

var slowDumped bool

var UFs = map[string]*UFSig{}
var axiomFns []AxiomFn

func RegisterUF(name string, res Sort, args ...Sort) {
	UFs[name] = &UFSig{Name: name, Args: args, Res: res}
}

func RegisterAxiom(f AxiomFn) { axiomFns = append(axiomFns, f) }

func NewSolver(kind string, tlimitMs int, keepLog bool) (*Solver, error) {
	var cmd *exec.Cmd
	switch kind {
	case "cvc5":
		cmd = exec.Command("cvc5", "--incremental", "--strings-exp", "--produce-models", "--lang=smt2",
			"--tlimit-per="+strconv.Itoa(tlimitMs))
	case "z3":
		cmd = exec.Command("z3", "-in", "-t:"+strconv.Itoa(tlimitMs))
	case "z3-new":
		cmd = exec.Command("z3-new", "-in", "-t:"+strconv.Itoa(tlimitMs))
	default:
		return nil, fmt.Errorf("unknown solver %s", kind)
	}
	in, err := cmd.StdinPipe()
	if err != nil {
		return nil, err
	}
	outp, err := cmd.StdoutPipe()
	if err != nil {
		return nil, err
	}
	cmd.Stderr = nil
	if err := cmd.Start(); err != nil {
		return nil, err
	}
	s := &Solver{name: kind, cmd: cmd, in: in, out: bufio.NewReaderSize(outp, 1<<16), declared: map[string]bool{}, tlimitMs: tlimitMs}
	if keepLog {
		s.log = &strings.Builder{}
	}
	s.send("(set-option :global-declarations true)")
	s.send("(set-logic ALL)")
	return s, nil
}

func (s *Solver) Close() {
	if s.dead {
		return
	}
	s.dead = true
	s.in.Close()
	done := make(chan struct{})
	go func() { s.cmd.Wait(); close(done) }()
	select {
	case <-done:
	case <-time.After(2 * time.Second):
		s.cmd.Process.Kill()
	}
}

func (s *Solver) send(line string) {
	if s.log != nil {
		s.log.WriteString(line)
		s.log.WriteByte('\n')
	}
	io.WriteString(s.in, line)
	io.WriteString(s.in, "\n")
}

func (s *Solver) Log() string {
	if s.log == nil {
		return ""
	}
	return s.log.String()
}

// readSexp reads one line or one balanced s-expression from the solver.
func (s *Solver) readSexp() (string, error) {
	var sb strings.Builder
	depth := 0
	inStr := false
	started := false
	for {
		c, err := s.out.ReadByte()
		if err != nil {
			return sb.String(), err
		}
		if !started {
			if c == ' ' || c == '\n' || c == '\r' || c == '\t' {
				continue
			}
			started = true
		}
		sb.WriteByte(c)
		if inStr {
			if c == '"' {
				inStr = false
			}
			continue
		}
		switch c {
		case '"':
			inStr = true
		case '(':
			depth++
		case ')':
			depth--
			if depth == 0 {
				return sb.String(), nil
			}
		case '\n':
			if depth == 0 {
				return strings.TrimSpace(sb.String()), nil
			}
		}
	}
}

// ---- scoped assertion stack with side conditions
//
// Every symbol (variable, zeros(n) auxiliary, UF application) carries side conditions: byte
// range of strings, integer ranges, fixed result lengths, and UF axioms instantiated against
// the applications already in scope. They are asserted in the scope where the symbol first
// appears and forgotten when that scope is popped.

type scope struct {
	seen map[int]bool
	apps []*Term
}

func (s *Solver) Push() {
	s.scopes = append(s.scopes, &scope{seen: map[int]bool{}})
	s.send("(push 1)")
}

func (s *Solver) Pop() {
	s.scopes = s.scopes[:len(s.scopes)-1]
	s.send("(pop 1)")
}

func (s *Solver) inScope(id int) bool {
	for _, sc := range s.scopes {
		if sc.seen[id] {
			return true
		}
	}
	return false
}

func (s *Solver) allApps() []*Term {
	var out []*Term
	for _, sc := range s.scopes {
		out = append(out, sc.apps...)
	}
	return out
}

const bytesRe = "(re.* (re.range \"\\u{0}\" \"\\u{ff}\"))"

// introduce emits declarations and side conditions for all new symbols in t.
func (s *Solver) introduce(t *Term) {
	if len(s.scopes) == 0 {
		panic("introduce outside scope")
	}
	top := s.scopes[len(s.scopes)-1]
	var visit func(x *Term)
	visit = func(x *Term) {
		if top.seen[x.ID] || s.inScope(x.ID) {
			return
		}
		top.seen[x.ID] = true
		// declare the head symbol first (axioms of argument terms may mention this very term)
		switch x.Op {
		case "var":
			n := SymName(x.S)
			if !s.declared[n] {
				s.declared[n] = true
				s.send(fmt.Sprintf("(declare-fun %s () %s)", n, x.Sort))
			}
		case "zeros":
			n := SymName("zeros!" + fmt.Sprint(x.ID))
			if !s.declared[n] {
				s.declared[n] = true
				s.send(fmt.Sprintf("(declare-fun %s () String)", n))
			}
		case "app":
			n := SymName(x.S)
			if !s.declared[n] {
				s.declared[n] = true
				sig := UFs[x.S]
				if sig == nil {
					panic("undeclared UF " + x.S)
				}
				var as []string
				for _, a := range sig.Args {
					as = append(as, a.String())
				}
				s.send(fmt.Sprintf("(declare-fun %s (%s) %s)", n, strings.Join(as, " "), sig.Res))
			}
		}
		for _, a := range x.Args {
			visit(a)
		}
		switch x.Op {
		case "var":
			n := SymName(x.S)
			if x.Sort == SStr {
				// Go strings are byte strings: restrict short free inputs to code points <= 0xFF.
				// Fixed-length variables (nonces, random bytes) and UF results are left
				// unrestricted: the regular-expression constraint costs cvc5 seconds per query
				// on 32/64-character variables, no operation of the encoding distinguishes code
				// points above 0xFF, and every model is replayed before it is reported.
				if strings.Contains(x.S, "!alnum") {
					s.send(fmt.Sprintf("(assert (not (str.contains %s \",\")))", n))
					s.send(fmt.Sprintf("(assert (not (str.contains %s \";\")))", n))
				}
				if k, ok := fixedLenOfVar(x.S); ok {
					s.send(fmt.Sprintf("(assert (= (str.len %s) %d))", n, k))
				} else {
					s.send(fmt.Sprintf("(assert (str.in_re %s %s))", n, bytesRe))
					if k, ok := maxLenOfVar(x.S); ok {
						s.send(fmt.Sprintf("(assert (<= (str.len %s) %d))", n, k))
					}
				}
			}
			if x.Sort == SInt {
				if x.lo != nil {
					s.send(fmt.Sprintf("(assert (>= %s %s))", n, smtInt(x.lo)))
				}
				if x.hi != nil {
					s.send(fmt.Sprintf("(assert (<= %s %s))", n, smtInt(x.hi)))
				}
			}
		case "zeros":
			n := SymName("zeros!" + fmt.Sprint(x.ID))
			s.send(fmt.Sprintf("(assert (str.in_re %s (re.* (str.to_re \"\\u{0}\"))))", n))
			s.send(fmt.Sprintf("(assert (= (str.len %s) %s))", n, x.Args[0].String()))
		case "app":
			if x.Sort == SStr {
				if k, ok := ufFixedLen[x.S]; ok {
					s.send(fmt.Sprintf("(assert (= (str.len %s) %d))", x.String(), k))
				}
			}
			if _, ok := ufAlphabet[x.S]; ok {
				// the structural simplifier relies on these characters being absent
				// (the full alphabet is assumed by the simplifier — Eq/StrToCode/StrIndexOf —
				// and stated here for the two separator characters the library splits on)
				for _, c := range []string{",", ";"} {
					if ufFreeOf(x.S, c[0]) {
						s.send(fmt.Sprintf("(assert (not (str.contains %s \"%s\")))", x.String(), c))
					}
				}
			}
			existing := s.allApps()
			top.apps = append(top.apps, x)
			for _, f := range axiomFns {
				for _, ax := range f(x, existing) {
					visit(ax)
					s.send("(assert " + ax.String() + ")")
				}
			}
		}
	}
	visit(t)
}

// ---- assertions shared between consecutive paths of one worker
//
// Paths are explored by re-execution, and consecutive paths share most of their path
// condition. Each path-condition conjunct is asserted in its own scope; a new path re-uses the
// scopes whose conjuncts it reproduces (same term, same position) and pops the rest only when
// it first diverges or first needs an answer from the solver.

// BeginPath rewinds the cursor; nothing is sent to the solver.
func (s *Solver) BeginPath() { s.cursor = 0 }

// syncShared drops the scopes of the previous path beyond the cursor.
func (s *Solver) syncShared() {
	for len(s.shared) > s.cursor {
		s.Pop()
		s.shared = s.shared[:len(s.shared)-1]
	}
}

// AssertShared adds a path-condition conjunct.
func (s *Solver) AssertShared(t *Term) {
	if s.cursor < len(s.shared) && s.shared[s.cursor] == t.ID {
		s.cursor++
		return
	}
	s.syncShared()
	s.Push()
	s.Assert(t)
	s.shared = append(s.shared, t.ID)
	s.cursor++
}

// ResetShared pops every shared scope (used after an aborted query left the stack unknown).
func (s *Solver) ResetShared() {
	for len(s.scopes) > 0 {
		s.Pop()
	}
	s.shared = nil
	s.cursor = 0
}

// Assert adds t to the current scope.
func (s *Solver) Assert(t *Term) {
	s.introduce(t)
	s.send("(assert " + t.String() + ")")
}

// CheckSat decides the current scope plus extra (asserted in a temporary scope). wantModel
// lists terms whose values to fetch on sat.
func (s *Solver) CheckSat(extra []*Term, wantModel []*Term) (SatResult, map[int]string) {
	s.syncShared()
	s.Push()
	for _, t := range extra {
		s.Assert(t)
	}
	for _, m := range wantModel {
		s.introduce(m)
	}
	t0 := time.Now()
	s.send("(check-sat)")
	res := s.readResult()
	dt := time.Since(t0).Seconds()
	s.Seconds += dt
	s.Queries++
	if dt > 2 && SlowLog != nil {
		SlowLog(dt, res, extra)
		if s.log != nil && !slowDumped && res == Unknown {
			slowDumped = true
			os.WriteFile("/tmp/gosym_slow.smt2", []byte(s.log.String()), 0o644)
		}
	}
	if s.SampleEvery > 0 && res != Unknown && s.Queries%s.SampleEvery == s.SampleOffset%s.SampleEvery && len(s.Samples) < s.SampleMax {
		s.Samples = append(s.Samples, SampledQuery{Script: StandaloneScript(extra), Result: res})
	}
	var model map[int]string
	switch res {
	case Sat:
		s.NSat++
		if len(wantModel) > 0 {
			model = map[int]string{}
			for _, m := range wantModel {
				s.send("(get-value (" + m.String() + "))")
				r, err := s.readSexp()
				if err != nil || strings.HasPrefix(r, "(error") {
					s.Errors = append(s.Errors, "get-value: "+r)
					continue
				}
				model[m.ID] = parseGetValue(r)
			}
		}
	case Unsat:
		s.NUnsat++
	default:
		s.NUnknown++
	}
	s.Pop()
	return res, model
}

func (s *Solver) readResult() SatResult {
	for {
		r, err := s.readSexp()
		if err != nil {
			s.Errors = append(s.Errors, "solver died: "+err.Error())
			return Unknown
		}
		switch r {
		case "sat":
			return Sat
		case "unsat":
			return Unsat
		case "unknown", "timeout":
			return Unknown
		case "success", "":
			continue
		}
		if strings.HasPrefix(r, "(error") {
			s.Errors = append(s.Errors, r)
			// an error may precede or replace the answer; keep reading only if it was not for check-sat
			// We cannot know; treat as inconclusive and resynchronise with an echo.
			s.send("(echo \"sync!\")")
			for {
				x, err := s.readSexp()
				if err != nil || strings.Contains(x, "sync!") {
					break
				}
			}
			return Unknown
		}
		s.Errors = append(s.Errors, "unexpected solver output: "+r)
		return Unknown
	}
}

// parseGetValue extracts the value literal from "((term value))" as a decoded string:
// Bool -> "true"/"false", Int -> decimal, String -> raw bytes.
func parseGetValue(r string) string {
	r = strings.TrimSpace(r)
	// strip outer "((" and "))"; the value is the last s-expr/literal
	if !strings.HasPrefix(r, "((") {
		return r
	}
	body := r[2 : len(r)-2]
	// find the start of the value: scan from the end
	body = strings.TrimSpace(body)
	if strings.HasSuffix(body, "\"") {
		// string literal: find its opening quote (quotes inside are doubled)
		i := len(body) - 2
		for i >= 0 {
			if body[i] == '"' {
				if i > 0 && body[i-1] == '"' {
					i -= 2
					continue
				}
				break
			}
			i--
		}
		return decodeSMTString(body[i+1 : len(body)-1])
	}
	if strings.HasSuffix(body, ")") {
		// (- N)
		depth := 0
		i := len(body) - 1
		for ; i >= 0; i-- {
			if body[i] == ')' {
				depth++
			} else if body[i] == '(' {
				depth--
				if depth == 0 {
					break
				}
			}
		}
		v := body[i:]
		v = strings.Trim(v, "()")
		v = strings.ReplaceAll(v, " ", "")
		return v // "-N"
	}
	i := strings.LastIndexAny(body, " \n\t")
	return body[i+1:]
}

func decodeSMTString(lit string) string {
	var out []byte
	for i := 0; i < len(lit); i++ {
		c := lit[i]
		if c == '"' && i+1 < len(lit) && lit[i+1] == '"' {
			out = append(out, '"')
			i++
			continue
		}
		if c == '\\' && i+1 < len(lit) && lit[i+1] == 'u' {
			// \u{X..} or \uXXXX
			if i+2 < len(lit) && lit[i+2] == '{' {
				j := strings.IndexByte(lit[i:], '}')
				if j > 0 {
					v, err := strconv.ParseUint(lit[i+3:i+j], 16, 32)
					if err == nil {
						out = append(out, byte(v))
						i += j
						continue
					}
				}
			} else if i+5 < len(lit) {
				v, err := strconv.ParseUint(lit[i+2:i+6], 16, 32)
				if err == nil {
					out = append(out, byte(v))
					i += 5
					continue
				}
			}
		}
		out = append(out, c)
	}
	return string(out)
}

// ModelInt parses a model value as big.Int.
func ModelInt(v string) *big.Int {
	b, ok := new(big.Int).SetString(v, 10)
	if !ok {
		return big.NewInt(0)
	}
	return b
}


// ---- differential cross-check: a sample of the queries is written out as standalone scripts
// and later decided again by z3 (see cmd/gosym: differential pass).

type SampledQuery struct {
	Script string
	Result SatResult
}

// StandaloneScript renders asserts as a self-contained SMT-LIB script (declarations, side
// conditions, instantiated axioms, assertions, check-sat).
func StandaloneScript(asserts []*Term) string {
	var sb strings.Builder
	sb.WriteString("(set-logic ALL)\n")
	seen := map[int]bool{}
	declared := map[string]bool{}
	var apps []*Term
	var side []string
	var visit func(x *Term)
	visit = func(x *Term) {
		if seen[x.ID] {
			return
		}
		seen[x.ID] = true
		switch x.Op {
		case "var":
			n := SymName(x.S)
			if !declared[n] {
				declared[n] = true
				sb.WriteString(fmt.Sprintf("(declare-fun %s () %s)\n", n, x.Sort))
			}
		case "zeros":
			n := SymName("zeros!" + fmt.Sprint(x.ID))
			if !declared[n] {
				declared[n] = true
				sb.WriteString(fmt.Sprintf("(declare-fun %s () String)\n", n))
			}
		case "app":
			n := SymName(x.S)
			if !declared[n] {
				declared[n] = true
				sig := UFs[x.S]
				var as []string
				for _, a := range sig.Args {
					as = append(as, a.String())
				}
				sb.WriteString(fmt.Sprintf("(declare-fun %s (%s) %s)\n", n, strings.Join(as, " "), sig.Res))
			}
		}
		for _, a := range x.Args {
			visit(a)
		}
		switch x.Op {
		case "var":
			n := SymName(x.S)
			if x.Sort == SStr {
				if strings.Contains(x.S, "!alnum") {
					side = append(side, fmt.Sprintf("(assert (not (str.contains %s \",\")))", n), fmt.Sprintf("(assert (not (str.contains %s \";\")))", n))
				}
				if k, ok := fixedLenOfVar(x.S); ok {
					side = append(side, fmt.Sprintf("(assert (= (str.len %s) %d))", n, k))
				} else {
					side = append(side, fmt.Sprintf("(assert (str.in_re %s %s))", n, bytesRe))
					if k, ok := maxLenOfVar(x.S); ok {
						side = append(side, fmt.Sprintf("(assert (<= (str.len %s) %d))", n, k))
					}
				}
			}
			if x.Sort == SInt {
				if x.lo != nil {
					side = append(side, fmt.Sprintf("(assert (>= %s %s))", n, smtInt(x.lo)))
				}
				if x.hi != nil {
					side = append(side, fmt.Sprintf("(assert (<= %s %s))", n, smtInt(x.hi)))
				}
			}
		case "zeros":
			n := SymName("zeros!" + fmt.Sprint(x.ID))
			side = append(side, fmt.Sprintf("(assert (str.in_re %s (re.* (str.to_re \"\\u{0}\"))))", n), fmt.Sprintf("(assert (= (str.len %s) %s))", n, x.Args[0].String()))
		case "app":
			if x.Sort == SStr {
				if k, ok := ufFixedLen[x.S]; ok {
					side = append(side, fmt.Sprintf("(assert (= (str.len %s) %d))", x.String(), k))
				}
			}
			if _, ok := ufAlphabet[x.S]; ok {
				for _, c := range []string{",", ";"} {
					if ufFreeOf(x.S, c[0]) {
						side = append(side, fmt.Sprintf("(assert (not (str.contains %s \"%s\")))", x.String(), c))
					}
				}
			}
			existing := append([]*Term{}, apps...)
			apps = append(apps, x)
			for _, f := range axiomFns {
				for _, ax := range f(x, existing) {
					visit(ax)
					side = append(side, "(assert "+ax.String()+")")
				}
			}
		}
	}
	for _, t := range asserts {
		visit(t)
	}
	for _, l := range side {
		sb.WriteString(l + "\n")
	}
	for _, t := range asserts {
		sb.WriteString("(assert " + t.String() + ")\n")
	}
	sb.WriteString("(check-sat)\n")
	return sb.String()
}

#!/bin/bash
# type-checks the harness natively with the in-package overlay files (developer convenience)
export GOFLAGS=-mod=mod GOPROXY=off GOSUMDB=off GOTOOLCHAIN=local
cd /verif/harness
python3 - <<'PY'
import json,os
rep={}
root='/verif/harness/_overlay'
for d,_,fs in os.walk(root):
    for f in fs:
        if f.endswith('.go'):
            p=os.path.join(d,f); rep[os.path.join('/repo',os.path.relpath(p,root))]=p
json.dump({"Replace":rep},open('/tmp/hbuild_overlay.json','w'))
PY
go build -overlay /tmp/hbuild_overlay.json ./... && go vet -overlay /tmp/hbuild_overlay.json ./props/ 2>&1 | grep -v "^#" | head -5

#!/bin/bash
# usage: bin/seedconfirm.sh <seed-dir-name> <demo-pkg-dir>
# Confirms a seeded change in a scratch worktree of /repo HEAD: suite passes with the patch,
# the demo fails with it and passes without it. Removes the worktree afterwards.
set -u
name=$1; pkg=$2
export GOFLAGS=-mod=mod GOPROXY=off GOSUMDB=off GOTOOLCHAIN=local
wt=/tmp/seedchk_$name
git -C /repo worktree remove --force $wt 2>/dev/null
git -C /repo worktree add -q --detach $wt HEAD || exit 2
cd $wt
res=ok
git apply /verif/seeded/$name/patch.diff || { echo "PATCH-DOES-NOT-APPLY"; res=bad; }
if [ $res = ok ]; then
  if go build ./... && go test -vet=off -count=1 ./... >/tmp/seedchk_$name.log 2>&1; then echo "suite-with-patch: PASS"; else echo "suite-with-patch: FAIL"; tail -5 /tmp/seedchk_$name.log; res=bad; fi
  cp /verif/seeded/$name/zz_seed_demo_test.go $pkg/
  if go test -vet=off -count=1 -run 'Seed' ./$pkg/ >/tmp/seedchk_$name.log 2>&1; then echo "demo-with-patch: PASS (unexpected)"; res=bad; else echo "demo-with-patch: FAIL (expected)"; fi
  git apply -R /verif/seeded/$name/patch.diff
  if go test -vet=off -count=1 -run 'Seed' ./$pkg/ >/tmp/seedchk_$name.log 2>&1; then echo "demo-without-patch: PASS (expected)"; else echo "demo-without-patch: FAIL (unexpected)"; tail -5 /tmp/seedchk_$name.log; res=bad; fi
fi
cd /; git -C /repo worktree remove --force $wt; rm -f /tmp/seedchk_$name.log
echo "seedconfirm $name: $res"
[ $res = ok ]

#!/usr/bin/env python3
"""Regenerates /verif/MANIFEST.json from the table below (claimed checks) + properties.jsonl."""
import json, os
V = '/verif'
ids = [json.loads(l)['id'] for l in open(f'{V}/properties.jsonl')]
TECH = "symbolic execution of the real functions from go/ssa (gosym, this repo) with cvc5 deciding every branch-feasibility and assertion query over all inputs within stated bounds; counterexamples replayed against the natively compiled code"
FLOW_NOTE = "Bounds and assumptions are written to the evidence file on every run (coverage.bounds, assumptions). Trusted base: the world model (harness/world), the stdlib/third-party boundary models (engine intrinsics, harness/stubs), cvc5."
CLAIMED = {
 "C01": ("model_checking", "Every registered route (and remember.Middleware) is run once from an arbitrary invariant state with an arbitrary request: the session's user identity changes only on the login routes and only with a credential that is valid by ground truth (ghost plaintexts), pending 2FA logins are parked only with a valid primary credential. One inductive step covers histories of any length over the two-account state shape.", "4.1", FLOW_NOTE),
 "C02": ("model_checking", "Primary login routes never issue a session for an account with a second factor (totp/sms/both loaded); the validate routes complete only the pending account's login and only with a code valid for its own secret / a code texted to its own number (ghost) / an unused recovery code; a two-request entry shows a code obtained for another phone never completes a login.", "4.2", FLOW_NOTE),
 "C03": ("model_checking", "All six login routes under both load orders of (confirm, lock): no session for an account locked throughout the request or unconfirmed; lock/confirm middlewares admit exactly the unlocked/confirmed session user. One known finding (OAuth2 callback of an unconfirmed account) is recorded and printed as KNOWN-FINDING.", "4.3", FLOW_NOTE),
 "C04": ("model_checking", "One inductive step of the lock module's transition function (failure / correct password / success / manual lock+unlock) from an arbitrary stored (count, last attempt, locked-until) with symbolic LockAfter>=1, LockWindow, LockDuration and a symbolic non-decreasing clock, against a reference automaton.", "4.4", "Settings up to 100 years, count < 2^62; replay in the interpreter with pinned inputs because lock.go reads time.Now() directly."),
 "C05": ("model_checking", "GET /confirm and POST /recover/end with arbitrary token strings (decoded bytes arbitrary, any length) from arbitrary stored token state: accepted iff the value decodes to exactly the issued 64 bytes of that account (and, recovery, in time); any other value leaves both accounts byte-identical; accepted tokens are spent; a re-issued recovery token supersedes the old one.", "4.5", FLOW_NOTE),
 "C06": ("model_checking", "Successful POST /recover/end from any browser session (remember loaded or not, login-after-recovery on/off) and Authboss.UpdatePassword: new password verifies, old does not, stored value is a salted hash, recovery token spent, all and only that account's remember tokens revoked, cookie deleted.", "4.6", FLOW_NOTE),
 "C07": ("model_checking", "Kernel: remember.GenerateToken + the decode/lookup of remember.Authenticate for every PID byte string within the bound (including ';' and OAuth2 PIDs). Flows: remember.Middleware from arbitrary cookie/session/table (rotation, half-auth mark, single use, bad cookie deleted), cookie issued iff asked, password reset revokes.", "4.7", FLOW_NOTE),
 "C08": ("model_checking", "authboss.MountedMiddleware2 under all 48 configurations with a symbolic session and store outcome: the wrapped handler runs iff the session names a loadable user and every requirement holds, refusals are exactly 404 / 401 / login redirect, storage error gives 500; the login redirect carries the original (mount-joined) path and query for arbitrary short paths and queries.", "4.8", "path and query are character lists (each byte its own input) of length <= 1/2; recording redirector."),
 "C09": ("model_checking", "expire.Middleware on an arbitrary session (symbolic presence/value per key, symbolic stamp, ExpireAfter, whitelist shapes, clock) and the Setup hook.", "4.9", "RFC3339 format/parse modelled as an injective uninterpreted function on whole seconds; replay in interpreter (clock)."),
 "C10": ("model_checking", "The registered logout handler under each LogoutMethod from an arbitrary session over every library key plus application keys: only whitelisted keys survive, remember cookie removed, the auth middleware then refuses; invalid method fails Init.", "4.10", FLOW_NOTE),
 "C11": ("model_checking", "The real ClientStateResponseWriter between recording stores and a recording underlying writer, for every operation sequence up to k over 8 operations with symbolic operands (including zero-length writes) under 0-2 wrappers: exactly-once, ordered, store-separated delivery before the first underlying write; reads stable.", "4.11", "operation sequences enumerated, operands symbolic; k=3 quick / 4 thorough."),
 "C12": ("model_checking", "OTP login, recovery-code login (TOTP and SMS routes, both user types), SMS code login: the accepted value is removed from storage / session, the request is then re-executed from the same browser state and must fail; rejected values consume nothing; /otp/add never exceeds five; TOTP replay guard.", "4.12", FLOW_NOTE),
 "C13": ("model_checking", "Every route from any session: TOTP secret / SMS number / recovery codes of an account change only for the fully authenticated owner proving the factor (ground truth from ghosts and the totp_ok predicate); e-mail authorisation gates enrolment and is spent; two-request setup-then-confirm entry binds the enrolled number to the texted code; e-mail verify end grants only for the issued token.", "4.13", FLOW_NOTE),
 "C14": ("model_checking", "PID codec kernel for all provider/uid strings within the bound, plus oauth2 Start/End from arbitrary sessions with arbitrary state/code/error parameters: login only with the session's own state and no provider error, matching callbacks spend state and params, mismatches touch neither store nor session, the session names the reported (provider, uid).", "4.14", FLOW_NOTE),
 "C15": ("model_checking", "defaults.Redirector (HTTP redirect through a validated transcription of http.Redirect, and the JSON API answer) with every redir byte string up to 5 (quick) / 7 (thorough) bytes, and the redir parameter carried through the OAuth2 round trip: the emitted Location / location is never off-site by a reference classifier after the WHATWG URL rules.", "4.15", "trusted base: the url.Parse / http.Redirect transcriptions (validated against the stdlib on 1.5M strings by go test ./stubs/) and the off-site classifier."),
 "C16": ("model_checking", "Two-run non-interference: two worlds are built from one symbolic pre-state (same symbols), each serves one request, and the observation tuples (status, headers, page, body data, session and cookie event lists) are compared term by term: locked account correct vs wrong password; recover for existing vs unknown account; failed login for unknown vs known account (not locked, not locking). Form and JSON modes with the real defaults.Responder/Redirector.", "4.16", FLOW_NOTE),
 "C17": ("other", "Structural exposure (symbolic-cryptography reading) of every secret the client typed or was shown, against every log line and stored field on every feasible path of every route; mailed tokens only to the account's address; the shipped error handler on the confirm link's error path; the shipped body reader's arbitrary fields on registration.", "4.17", "the literal substring statement is not decided (see DESIGN.md 4.17); hashes are one-way atoms."),
 "C18": ("model_checking", "Every route and the remember / lock / confirm middlewares with a symbolic failure flag at every storage / hasher / responder / redirector / mailer / SMS-sender call (<= 1 quick, <= 2 thorough per request), both error-handler variants: never a panic; a failed write gives an error outcome; a session issued implies the one-time credential that justified it is spent in storage; failed requests only shrink OTP / recovery-code sets.", "4.18", FLOW_NOTE),
 "C19": ("model_checking", "K1 tallyCharacters vs a reference classification for all ASCII strings up to the bound; K2 Rules.Errors with all thresholds symbolic accepts exactly when the reference policy does; K3 confirm-field logic; register.Post through the real defaults.HTTPBodyReader (form and JSON, with/without confirm, missing and hostile fields): nothing created on validation failure or existing pid, exactly one account otherwise with a hashed password and only whitelisted extras, logged in iff confirm is not loaded.", "4.19", "summaries (contracts) of tallyCharacters and Rules.Errors are proved by K1/K2 within their bounds and used by the callers."),
 "C20": ("other", "Access-set analysis for data-race freedom: with no synchronisation in library code (SSA census every run; mutex critical sections modelled) a race between concurrent requests exists iff a request path writes a location that outlives the request; every route, the exported middlewares, and each shipped default component are executed symbolically and every such write by library code is reported.", "4.20", "schedules are not enumerated; user-supplied components are assumed goroutine-safe; see the explanation in the evidence file."),
}
checks = []
for pid, (lvl, text, ref, note) in sorted(CLAIMED.items()):
    checks.append({
        "property_id": pid,
        "quick_cmd": f"/verif/bin/check {pid} quick",
        "thorough_cmd": f"/verif/bin/check {pid} thorough",
        "evidence_file": f"/verif/evidence/{pid}.json",
        "replay_cmd_template": "/verif/bin/gosym replay {path}",
        "engine": "gosym",
        "level_claimed": {"category": lvl, "text": text, "design_ref": "DESIGN.md section " + ref},
        "level_note": note,
        "technique": TECH,
    })
m = {
 "version": 1,
 "setup_cmd": "bash /verif/bin/setup.sh",
 "hooks": {"guard": "verif", "enable": "no source hooks are needed: in-package harness files are injected with go/packages overlays and go test -overlay; the build tag 'verif' is reserved and unused",
           "baseline_off_cmd": "cd /repo && GOFLAGS=-mod=mod GOPROXY=off GOSUMDB=off go test -vet=off -count=1 ./...",
           "source_commits": [], "add_only": True},
 "engines": [{"name": "gosym", "path": "/verif/engine", "serves_properties": sorted(CLAIMED), "kind_free_text": "SSA-level symbolic executor for Go (go/ssa + cvc5; z3 differential), written for this task"}],
 "checks": checks,
 "notes": "bin/check rebuilds the engine if needed and re-loads /repo's current working tree on every run (go/packages + go/ssa). Exit 0 = all assertions unsat within bounds; 1 = replayed counterexample (VIOLATION line); 2 = inconclusive.",
 "not_applicable": [{"property_id": i, "reason": "check not built yet (work in progress)"} for i in ids if i not in CLAIMED],
}
NA = json.load(open(f'{V}/bin/not_applicable.json')) if os.path.exists(f'{V}/bin/not_applicable.json') else {}
for e in m["not_applicable"]:
    if e["property_id"] in NA:
        e["reason"] = NA[e["property_id"]]
json.dump(m, open(f'{V}/MANIFEST.json', 'w'), indent=1)
print("claimed:", sorted(CLAIMED))

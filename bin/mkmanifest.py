#!/usr/bin/env python3
"""Regenerates /verif/MANIFEST.json from the table below (claimed checks) + properties.jsonl."""
import json, os
V = '/verif'
ids = [json.loads(l)['id'] for l in open(f'{V}/properties.jsonl')]
TECH = "symbolic execution of the real functions from go/ssa (gosym, this repo) with cvc5 deciding every branch-feasibility and assertion query over all inputs within stated bounds; counterexamples replayed against the natively compiled code"
CLAIMED = {
 "C04": ("model_checking", "One inductive step of the lock module's transition function (failure / correct password / success / manual lock+unlock) from an arbitrary stored (count, last attempt, locked-until) with symbolic LockAfter>=1, LockWindow, LockDuration and a symbolic non-decreasing clock, checked against a reference automaton; unsat = holds for every value in the bounds, so histories of any length are covered by induction over the stored state.", "4.4",
         "Settings up to 100 years, count < 2^62, instants in years 1..9999; time.Time modelled as integer nanoseconds with the stdlib's saturating Sub; store = world.Store (copy semantics); replay in the interpreter with pinned inputs because lock.go reads time.Now() directly."),
 "C07": ("model_checking", "remember.GenerateToken followed by the decode/lookup of remember.Authenticate (through remember.Middleware and LoadClientStateMiddleware) for every PID byte string within the bound, including ';' and the OAuth2 PID shape: the cookie is accepted, looked up under exactly the (pid, hash) it was stored with, and the session is issued to that pid.", "4.7",
         "sha512 and base64 are uninterpreted functions with decode(encode(x))=x; crypto/rand returns arbitrary bytes; PID length <= 6/16 bytes (quick/thorough)."),
 "C09": ("model_checking", "expire.Middleware on an arbitrary session (every key symbolic presence+value, symbolic RFC3339 stamp, symbolic ExpireAfter, both whitelist shapes, symbolic clock) and the Setup hook: expired => downstream sees nothing non-whitelisted and the response deletes it; fresh => unchanged and re-stamped; unstamped logged-in sessions get a stamp.", "4.9",
         "RFC3339 format/parse modelled as an injective uninterpreted function on whole seconds with parse(format(x))=x; ExpireAfter in (0, 100y]; whitelist in {[], [app_w]}; replay in interpreter (clock)."),
 "C14": ("model_checking", "MakeOAuth2PID/ParseOAuth2PID for all provider/uid byte strings within the bound (provider free of ';'): round trip returns exactly the pair or an error, and distinct pairs give distinct PIDs.", "4.14",
         "fmt.Sprintf(%s) and strings.Split modelled with SMT string operations; strings <= 6/12 bytes."),
}
checks = []
for pid, (lvl, text, ref, note) in sorted(CLAIMED.items()):
    checks.append({
        "property_id": pid,
        "quick_cmd": f"/verif/bin/check {pid} quick",
        "thorough_cmd": f"/verif/bin/check {pid} thorough",
        "evidence_file": f"/verif/evidence/{pid}.json",
        "replay_cmd_template": "/verif/bin/gosym replay {path}",
        "engine": "gosym",
        "level_claimed": {"category": lvl, "text": text, "design_ref": "DESIGN.md section " + ref},
        "level_note": note,
        "technique": TECH,
    })
m = {
 "version": 1,
 "setup_cmd": "bash /verif/bin/setup.sh",
 "hooks": {"guard": "verif", "enable": "no source hooks are needed: in-package harness files are injected with go/packages overlays and go test -overlay; the build tag 'verif' is reserved and unused",
           "baseline_off_cmd": "cd /repo && GOFLAGS=-mod=mod GOPROXY=off GOSUMDB=off go test -vet=off -count=1 ./...",
           "source_commits": [], "add_only": True},
 "engines": [{"name": "gosym", "path": "/verif/engine", "serves_properties": sorted(CLAIMED), "kind_free_text": "SSA-level symbolic executor for Go (go/ssa + cvc5; z3 differential), written for this task"}],
 "checks": checks,
 "notes": "bin/check rebuilds the engine if needed and re-loads /repo's current working tree on every run (go/packages + go/ssa). Exit 0 = all assertions unsat within bounds; 1 = replayed counterexample (VIOLATION line); 2 = inconclusive.",
 "not_applicable": [{"property_id": i, "reason": "check not built yet (work in progress)"} for i in ids if i not in CLAIMED],
}
NA = json.load(open(f'{V}/bin/not_applicable.json')) if os.path.exists(f'{V}/bin/not_applicable.json') else {}
for e in m["not_applicable"]:
    if e["property_id"] in NA:
        e["reason"] = NA[e["property_id"]]
json.dump(m, open(f'{V}/MANIFEST.json', 'w'), indent=1)
print("claimed:", sorted(CLAIMED))

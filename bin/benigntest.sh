#!/bin/bash
# usage: bin/benigntest.sh <patch-file> [property ids...] — apply a behaviour-preserving patch to /repo, run the quick checks
# (all 20 by default), revert. Prints one line per property; any exit other than 0 is a false alarm (1) or an
# analysis that no longer goes through (2) and needs looking at. Evidence files are put back afterwards.
set -u
patch=$1; shift
props=${@:-C01 C02 C03 C04 C05 C06 C07 C08 C09 C10 C11 C12 C13 C14 C15 C16 C17 C18 C19 C20}
cd /repo || exit 2
if [ -n "$(git status --porcelain)" ]; then echo "/repo not clean"; exit 2; fi
git apply $patch || { echo "patch does not apply: $patch"; exit 2; }
keep=$(mktemp -d); cp /verif/evidence/C*.json $keep/
cd /verif; bad=0
for p in $props; do
  out=$(timeout 1500 bin/gosym check $p --tier quick 2>&1); rc=$?
  echo "benign $(basename $(dirname $patch))/$(basename $patch) $p exit=$rc $(echo "$out" | grep -a '^VIOLATION\|^INCONCLUSIVE' | head -2 | cut -c1-220 | tr '\n' ' ')"
  [ $rc -ne 0 ] && bad=1
done
git -C /repo checkout -- .
cp $keep/C*.json /verif/evidence/; rm -rf $keep
exit $bad

#!/bin/bash
# usage: bin/benigntest.sh <patch-file> [property ids...]
# Applies a behaviour-preserving patch to a scratch worktree of /repo HEAD and runs the quick checks (all 20 by
# default) against it, with a scratch copy of /verif/harness whose go.mod points at that worktree ($VERIF_DIR /
# $VERIF_REPO of gosym). /repo, /verif/harness and /verif/evidence are not touched. One line per property; any
# exit other than 0 is a false alarm (1) or an analysis that no longer goes through (2).
set -u
patch=$(readlink -f $1); shift
props=${@:-C01 C02 C03 C04 C05 C06 C07 C08 C09 C10 C11 C12 C13 C14 C15 C16 C17 C18 C19 C20}
tag=$(basename $(dirname $patch))_$(basename $patch .diff)
S=/tmp/benignrun_$tag
rm -rf $S; git -C /repo worktree prune; mkdir -p $S/verif
git -C /repo worktree add -q --detach $S/repo HEAD || exit 2
git -C $S/repo apply $patch || { echo "patch does not apply: $patch"; git -C /repo worktree remove --force $S/repo; rm -rf $S; exit 2; }
cp -r /verif/harness $S/verif/harness; cp /verif/known_findings.json $S/verif/
sed -i "s#=> /repo#=> $S/repo#" $S/verif/harness/go.mod
bad=0
for p in $props; do
  out=$(VERIF_DIR=$S/verif VERIF_REPO=$S/repo timeout 1500 /verif/bin/gosym check $p --tier quick 2>&1); rc=$?
  echo "benign $tag $p exit=$rc $(echo "$out" | grep -a '^VIOLATION\|^INCONCLUSIVE' | head -2 | cut -c1-220 | tr '\n' ' ')"
  [ $rc -ne 0 ] && bad=1
done
git -C /repo worktree remove --force $S/repo; rm -rf $S
exit $bad

#!/bin/bash
# usage: bin/seedtest.sh <seed-dir-name> [property] [tier]  — apply /verif/seeded/<name>/patch.diff to /repo, run the check, revert.
# The evidence file of the property is put back afterwards (committed evidence describes the unchanged tree).
set -u
name=$1; prop=${2:-${name%%-*}}; tier=${3:-quick}
cd /repo || exit 2
if [ -n "$(git status --porcelain)" ]; then echo "/repo not clean"; exit 2; fi
git apply /verif/seeded/$name/patch.diff || { echo "patch does not apply"; exit 2; }
keep=$(mktemp); cp /verif/evidence/$prop.json $keep 2>/dev/null
cd /verif && bin/gosym check $prop --tier $tier; rc=$?
git -C /repo checkout -- .
[ -s $keep ] && cp $keep /verif/evidence/$prop.json; rm -f $keep
echo "seedtest $name property=$prop exit=$rc"
exit $rc

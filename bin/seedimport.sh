#!/bin/bash
# usage: bin/seedimport.sh <property-id> [round]  — import a sub-agent's deliverables from /tmp/seed/out<round>_<id> into /verif/seeded/<id>-<round>/
id=$1; round=${2:-2}
src=/tmp/seed/out${round}_$id; dst=/verif/seeded/$id-$round
[ -f $src/patch.diff ] || { echo "no patch in $src"; exit 2; }
mkdir -p $dst && cp $src/patch.diff $src/zz_seed_demo_test.go $dst/
pkg=$(cat $src/demo_pkg.txt | tr -d '\n ')
python3 - <<PY
import json
m=json.load(open('$src/meta.json'))
out={"property":"$id","breaks":m.get("summary",""),"needs":m.get("needs",""),"demo_pkg":"$pkg","demo_cmd":"go test -vet=off -count=1 -run Seed ./$pkg/","origin":"sub-agent seed$round-$id (round $round: a change different in kind from the earlier seeded changes for $id)"}
json.dump(out,open('$dst/meta.json','w'),indent=1)
PY
/verif/bin/seedconfirm.sh $id-$round $pkg

#!/bin/bash
# Runs every seeded change against the check of the property it breaks (and the extra ones in also_breaks).
cd /verif
for d in seeded/*/; do
  n=$(basename $d)
  props=$(python3 -c "import json;m=json.load(open('$d/meta.json'));print(' '.join([m['property']]+m.get('also_breaks',[])))" 2>/dev/null || echo ${n%%-*})
  for p in $props; do
    out=$(timeout 1100 bin/seedtest.sh $n $p 2>&1 | grep -a "seedtest\|patch does not" | tail -1)
    echo "$n -> $p: $out"
  done
done

#!/bin/bash
# Runs every seeded change against the check of the property it breaks (and the extra ones in also_breaks);
# records the entries that reported it in seeded/<name>/meta.json (detected_by) and in seeded/SWEEP.log.
cd /verif
: > seeded/SWEEP.log
for d in ${@:-seeded/*/}; do
  n=$(basename $d)
  props=$(python3 -c "import json;m=json.load(open('seeded/$n/meta.json'));print(' '.join([m['property']]+m.get('also_breaks',[])))" 2>/dev/null || echo ${n%%-*})
  for p in $props; do
    out=$(timeout 1100 bin/seedtest.sh $n $p 2>&1)
    last=$(echo "$out" | grep -a "seedtest\|patch does not" | tail -1)
    ents=$(echo "$out" | grep -a -o "entry=[A-Za-z0-9_]*" | sort -u | sed 's/entry=//' | tr '\n' ' ')
    echo "$n -> $p: $last entries: $ents" | tee -a seeded/SWEEP.log
    python3 - "$n" "$p" "$last" "$ents" <<'PY'
import json,sys
n,p,last,ents=sys.argv[1:5]
f=f'/verif/seeded/{n}/meta.json'
m=json.load(open(f))
db=m.get('detected_by',{})
if not isinstance(db,dict): db={}
db[p]={"exit":last.split('exit=')[-1] if 'exit=' in last else last,"entries":ents.split()}
m['detected_by']=db
json.dump(m,open(f,'w'),indent=1)
PY
  done
done

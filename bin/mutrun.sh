#!/bin/bash
# usage: bin/mutrun.sh <mutants-dir> [from] [to]
# For each mutant NNN.diff: scratch worktree of /repo HEAD, apply, build, run the repository's whole test suite.
# Killed by the suite -> "tests". Otherwise run the quick checks of the properties mapped to the file (NNN.json "props")
# against the scratch tree ($VERIF_DIR/$VERIF_REPO): any exit 1 -> "checks:<ids>", all 0 -> "SURVIVED" (an equivalent
# mutant, a change outside every property, or a gap), exit 2 -> "inconclusive:<ids>". /repo and /verif are not touched.
set -u
dir=$(readlink -f $1); from=${2:-1}; to=${3:-999}
export GOFLAGS=-mod=mod GOPROXY=off GOSUMDB=off GOTOOLCHAIN=local
for d in $dir/*.diff; do
  n=$(basename $d .diff); [ $((10#$n)) -lt $from ] && continue; [ $((10#$n)) -gt $to ] && continue
  S=/tmp/mutrun_$n; rm -rf $S; git -C /repo worktree prune; mkdir -p $S/verif
  git -C /repo worktree add -q --detach $S/repo HEAD || continue
  desc=$(python3 -c "import json;m=json.load(open('$dir/$n.json'));print(m['file']+':'+str(m['line'])+' '+m['kind']+' | '+m['old'][:90])")
  props=$(python3 -c "import json;print(json.load(open('$dir/$n.json'))['props'])")
  res=""
  if ! git -C $S/repo apply $d 2>/dev/null; then res="does-not-apply"
  elif ! (cd $S/repo && go build ./... >/dev/null 2>&1); then res="does-not-compile"
  elif ! (cd $S/repo && go test -vet=off -count=1 ./... >/dev/null 2>&1); then res="tests"
  else
    cp -r /verif/harness $S/verif/harness; cp /verif/known_findings.json $S/verif/
    sed -i "s#=> /repo#=> $S/repo#" $S/verif/harness/go.mod
    hit=""; inc=""
    for p in $props; do
      VERIF_DIR=$S/verif VERIF_REPO=$S/repo timeout 1500 /verif/bin/gosym check $p --tier quick >/dev/null 2>&1; rc=$?
      [ $rc -eq 1 ] && hit="$hit$p,"; [ $rc -ge 2 ] && inc="$inc$p,"
      [ $rc -eq 1 ] && break
    done
    if [ -n "$hit" ]; then res="checks:$hit"; elif [ -n "$inc" ]; then res="inconclusive:$inc"; else res="SURVIVED"; fi
  fi
  echo "mutant $n $res | $desc"
  git -C /repo worktree remove --force $S/repo; rm -rf $S
done

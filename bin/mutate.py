#!/usr/bin/env python3
"""Generates first-order mutants of /repo's non-test sources as unified diffs (one changed line each).
usage: mutate.py <outdir> <count> [seed]
Operators: relational flip (== != < <= > >=), && <-> ||, negation dropped/added in if conditions,
deletion of a session/cookie/user-field update statement. Used by bin/mutrun.sh to look for changes
that survive both the repository's tests and the checks."""
import os, random, re, subprocess, sys, json
out, count = sys.argv[1], int(sys.argv[2]); seed = int(sys.argv[3]) if len(sys.argv) > 3 else 1
random.seed(seed)
REPO = '/repo'
FILES = {
 'auth/auth.go': 'C01 C02 C03 C16 C18', 'confirm/confirm.go': 'C03 C05 C18 C19', 'lock/lock.go': 'C03 C04 C16',
 'recover/recover.go': 'C05 C06 C16 C18 C01', 'remember/remember.go': 'C07 C01 C10 C18', 'otp/otp.go': 'C01 C12 C18',
 'otp/twofactor/totp2fa/totp.go': 'C02 C12 C13 C18', 'otp/twofactor/sms2fa/sms.go': 'C02 C12 C13 C18',
 'otp/twofactor/twofactor_verify.go': 'C13', 'otp/twofactor/twofactor_recover.go': 'C13 C12 C02',
 'oauth2/oauth2.go': 'C14 C15 C07 C01 C18', 'logout/logout.go': 'C10 C18', 'expire/expire.go': 'C09',
 'register/register.go': 'C19 C18 C01', 'defaults/values.go': 'C19 C07', 'defaults/rules.go': 'C19',
 'defaults/responder.go': 'C15 C16', 'defaults/router.go': 'C20 C10', 'client_state.go': 'C11 C10 C08 C09',
 'authboss.go': 'C08 C06 C01', 'user.go': 'C14', 'response.go': 'C17 C20', 'events.go': 'C03 C18',
}
def mutations(line):
    res = []
    code = line.split('//')[0]
    if '"' in code and re.search(r'"[^"]*(==|!=|<=|>=|&&|\|\|)[^"]*"', code): return res
    st = code.strip()
    if st.startswith('if ') or st.startswith('} else if ') or st.startswith('for ') or ' := ' in st and ('==' in st or '!=' in st) or st.startswith('return ') :
        for a, b in [('==', '!='), ('!=', '=='), ('<=', '<'), ('>=', '>'), (' < ', ' <= '), (' > ', ' >= '), ('&&', '||'), ('||', '&&')]:
            for m in re.finditer(re.escape(a), code):
                if a in (' < ', ' > ') and code[m.end():m.end()+1] == '=': continue
                res.append(('flip %s->%s' % (a.strip(), b.strip()), code[:m.start()] + b + code[m.end():] + line[len(code):]))
        for m in re.finditer(r'(if |&& |\|\| )!(\w)', code):
            res.append(('drop negation', code[:m.start()] + m.group(1) + m.group(2) + code[m.end():] + line[len(code):]))
        for m in re.finditer(r'(if |&& |\|\| )(ok|handled|has\w*|is\w*)\b', code):
            res.append(('add negation', code[:m.start()] + m.group(1) + '!' + m.group(2) + code[m.end():] + line[len(code):]))
    if re.match(r'\s*(authboss\.)?(DelSession|PutSession|DelCookie|PutCookie|DelAllSession|DelKnownSession|DelKnownCookie)\(', line) or re.match(r'\s*\w+\.Put\w+\(', line):
        res.append(('delete statement', None))
    return res
cands = []
for f, props in FILES.items():
    lines = open(os.path.join(REPO, f)).read().split('\n')
    for i, l in enumerate(lines):
        for kind, new in mutations(l):
            cands.append((f, i, kind, new, props))
random.shuffle(cands)
os.makedirs(out, exist_ok=True)
n = 0
for f, i, kind, new, props in cands:
    if n >= count: break
    path = os.path.join(REPO, f)
    orig = open(path).read()
    lines = orig.split('\n')
    if new is None: mutated = lines[:i] + lines[i+1:]
    else: mutated = lines[:i] + [new] + lines[i+1:]
    tmp = '/tmp/_mut_tmp.go'
    open(tmp, 'w').write('\n'.join(mutated))
    d = subprocess.run(['diff', '-u', '--label', 'a/' + f, '--label', 'b/' + f, path, tmp], capture_output=True, text=True).stdout
    if not d: continue
    n += 1
    open(os.path.join(out, '%03d.diff' % n), 'w').write(d)
    json.dump({'file': f, 'line': i + 1, 'kind': kind, 'old': lines[i].strip(), 'new': (new or '').strip(), 'props': props}, open(os.path.join(out, '%03d.json' % n), 'w'))
print('mutants:', n, 'of', len(cands), 'candidates')

#!/usr/bin/env python3
# Prints the markdown table of seeded changes (seeded/*/meta.json: property, breaks, detected_by) for DESIGN.md 7.5.
import json, glob, os, re, sys
rows = []
for d in sorted(glob.glob('/verif/seeded/C*')):
    if not os.path.isdir(d): continue
    n = os.path.basename(d)
    m = json.load(open(d + '/meta.json'))
    br = re.sub(r'\s+', ' ', m.get('breaks', '')).strip()
    if len(br) > 230: br = br[:227] + '...'
    db = m.get('detected_by', {})
    det = []
    for p, v in sorted(db.items()):
        ents = ', '.join(v.get('entries', [])) or '-'
        det.append(f"{p}: {ents} (exit {v.get('exit')})")
    rows.append((n, br.replace('|', '\\|'), '; '.join(det)))
print('| seed | change | reported by (quick tier) |')
print('|---|---|---|')
for r in rows:
    print('| %s | %s | %s |' % r)

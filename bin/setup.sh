#!/bin/bash
# Build the gosym engine offline from files on disk.
set -e
export GOFLAGS=-mod=mod GOPROXY=off GOSUMDB=off GOTOOLCHAIN=local
cd /verif/engine && go build -o /verif/bin/gosym ./cmd/gosym

// Package verif is the harness API: nondeterministic inputs, assumptions and assertions.
//
// Under the gosym symbolic executor every function here is intercepted (the bodies below are
// never run). The bodies are the *native replay* implementation: inputs come from a JSON model
// file named by $VERIF_MODEL, assumptions and assertions are evaluated concretely.
package verif

import (
	"encoding/json"
	"fmt"
	"math/big"
	"os"
	"strconv"
	"strings"
	"time"
)

var (
	model    map[string]string
	counters = map[string]int{}
	// Failed collects failed assertion labels during native replay.
	Failed []string
	// Witnessed collects witness labels whose condition held during native replay.
	Witnessed []string
	// Unassumed is set when an Assume evaluated to false during native replay.
	Unassumed bool
)

func loadModel() {
	if model != nil {
		return
	}
	model = map[string]string{}
	if p := os.Getenv("VERIF_MODEL"); p != "" {
		data, err := os.ReadFile(p)
		if err != nil {
			panic(err)
		}
		var raw map[string]json.RawMessage
		if err := json.Unmarshal(data, &raw); err != nil {
			panic(err)
		}
		// values are JSON strings holding raw bytes encoded as \u00XX where needed
		for k, v := range raw {
			var s string
			if err := json.Unmarshal(v, &s); err == nil {
				// bytes were stored as runes 0..255
				b := make([]byte, 0, len(s))
				for _, r := range s {
					b = append(b, byte(r))
				}
				model[k] = string(b)
			}
		}
	}
}

// Reset clears native replay state (between replays in one process).
func Reset() {
	model = nil
	counters = map[string]int{}
	Failed = nil
	Witnessed = nil
	Unassumed = false
}

func next(label string) (string, bool) {
	loadModel()
	k := counters[label]
	counters[label] = k + 1
	v, ok := model[fmt.Sprintf("%s#%d", label, k)]
	return v, ok
}

// String returns an arbitrary byte string of length <= maxLen.
func String(label string, maxLen int) string { v, _ := next(label); return v }

// StringN returns an arbitrary byte string of length exactly n.
func StringN(label string, n int) string {
	v, _ := next(label)
	for len(v) < n {
		v += "\x00"
	}
	return v[:n]
}

// Int returns an arbitrary int in [lo, hi].
func Int(label string, lo, hi int) int {
	v, ok := next(label)
	if !ok {
		return lo
	}
	i, _ := strconv.Atoi(v)
	return i
}

// Bool returns an arbitrary bool.
func Bool(label string) bool { v, _ := next(label); return v == "true" }

// Choice returns an arbitrary int in [0, n): enumerated (forked) rather than solved for.
func Choice(label string, n int) int {
	v, ok := next("choice:" + label)
	if !ok {
		return 0
	}
	i, _ := strconv.Atoi(v)
	return i
}

// Assume restricts the inputs considered.
func Assume(c bool) {
	if !c {
		Unassumed = true
		panic(AssumeFailed{})
	}
}

// Assert states the property.
func Assert(c bool, label string) {
	if !c {
		Failed = append(Failed, label)
	}
}

// Reach records that a harness location was reached (vacuity guard).
func Reach(label string) {}

// Witness records that cond is satisfiable here (vacuity guard).
func Witness(cond bool, label string) {
	if cond {
		Witnessed = append(Witnessed, label)
	}
}

// Note attaches a remark to the evidence.
func Note(s string) {}

// Feasible reports whether c can hold on the current path (no fork). Native: c itself.
func Feasible(c bool) bool { return c }

// Symbolic reports whether the harness runs under the symbolic executor.
func Symbolic() bool { return false }

// FreshString returns an arbitrary byte string of length n that is not an adversary input
// (used by world-model components that generate secrets).
func FreshString(label string, n int) string {
	v, _ := next("fresh!" + label)
	for len(v) < n {
		v += "\x00"
	}
	return v[:n]
}

// And, Or, Not, Implies build conditions without short-circuit branching (no path fork).
func And(a, b bool) bool     { return a && b }
func Or(a, b bool) bool      { return a || b }
func Not(a bool) bool        { return !a }
func Implies(a, b bool) bool { return !a || b }

// StrEq / IntEq / Le / Lt: comparisons as values (no fork).
func StrEq(a, b string) bool { return a == b }
func IntEq(a, b int) bool    { return a == b }
func Le(a, b int) bool       { return a <= b }
func Lt(a, b int) bool       { return a < b }

// Ite selects without forking.
func Ite(c bool, a, b string) string {
	if c {
		return a
	}
	return b
}
func IteInt(c bool, a, b int) int {
	if c {
		return a
	}
	return b
}

// Bound returns the tier's bound (quick or thorough). Native replay: the larger one, so any
// model found under either tier fits.
func Bound(quick, thorough int) int { return thorough }

// Thorough reports whether the thorough tier is running (native: true).
func Thorough() bool { return true }

// KnownRegion declares, for the assertions that follow on this path, the input region of a
// recorded known finding (see /verif/known_findings.json). A failing assertion is reported as
// a violation only if it can also fail outside every active known region.
func KnownRegion(id string, cond bool) {}

// ClearKnownRegions forgets the regions declared so far on this path.
func ClearKnownRegions() {}

// ReplayInInterpreter marks the harness as not natively replayable (it depends on values the
// native build cannot pin, e.g. the wall clock); counterexamples are re-executed in the
// interpreter with all inputs pinned to the model instead.
func ReplayInInterpreter() {}

// AssumeFailed is the panic value used by the native Assume to stop a replay whose model does
// not satisfy the harness assumptions.
type AssumeFailed struct{}

// Time returns an arbitrary instant between year 1 and year 9999 (UTC). The model value is the
// number of nanoseconds since the Unix epoch as a decimal string.
func Time(label string) time.Time {
	v, ok := next(label)
	if !ok {
		return time.Time{}
	}
	ns, ok := new(big.Int).SetString(v, 10)
	if !ok {
		return time.Time{}
	}
	sec, nsec := new(big.Int).DivMod(ns, big.NewInt(1000000000), new(big.Int))
	return time.Unix(sec.Int64(), nsec.Int64()).UTC()
}

// UFStr applies a named uninterpreted String function (see engine table). Native replay uses
// the registered native implementation.
func UFStr(name string, args ...string) string {
	if f, ok := NativeUF[name]; ok {
		return f(args...)
	}
	panic("verif.UFStr: no native implementation for " + name)
}

// UFBool applies a named uninterpreted predicate.
func UFBool(name string, args ...string) bool {
	if f, ok := NativeUFBool[name]; ok {
		return f(args...)
	}
	panic("verif.UFBool: no native implementation for " + name)
}

// NativeUF / NativeUFBool: native implementations of the uninterpreted functions.
var NativeUF = map[string]func(args ...string) string{}
var NativeUFBool = map[string]func(args ...string) bool{}

// Param returns a run parameter (environment variable GOSYM_PARAM_<name>), "" if unset.
func Param(name string) string { return os.Getenv("GOSYM_PARAM_" + name) }

// NoSummaries makes the executor run the library's random-code generators from their real
// bodies instead of their contracts (used by the kernels that check those generators).
func NoSummaries() {}

// AllBytesIn reports whether every byte of s lies in one of the inclusive ranges given as
// consecutive byte pairs in classes (e.g. "azAZ09" = letters and digits). Non-forking.
func AllBytesIn(s, classes string) bool {
	for i := 0; i < len(s); i++ {
		ok := false
		for j := 0; j+1 < len(classes); j += 2 {
			if s[i] >= classes[j] && s[i] <= classes[j+1] {
				ok = true
			}
		}
		if !ok {
			return false
		}
	}
	return true
}

// Chars returns an arbitrary byte string of length exactly n built from n independent
// one-byte inputs (label_0 .. label_{n-1}): position-wise reasoning stays structural.
func Chars(label string, n int) string {
	b := make([]byte, n)
	for i := 0; i < n; i++ {
		b[i] = byte(Int(label+"_"+strconv.Itoa(i), 0, 255))
	}
	return string(b)
}

// ResetLabels makes the following inputs coincide with the inputs created so far under the
// same labels (symbolic: same symbols; native: same model values): two worlds can be built
// from one arbitrary pre-state.
func ResetLabels() { counters = map[string]int{} }

// Exposes reports whether sink reveals secret. Symbolic: some input symbol of the secret occurs
// in the sink term outside every one-way hash application (the standard symbolic-cryptography
// reading). Native: the secret is a non-empty substring of the sink.
func Exposes(sink, secret string) bool {
	return secret != "" && strings.Contains(sink, secret)
}

// ExposesBeyond is Exposes for a secret that embeds a public part (e.g. the account identifier
// inside a remember-me cookie): only the rest of the secret counts. Native: as Exposes.
func ExposesBeyond(sink, secret, public string) bool { return Exposes(sink, secret) }

// NoSummary makes the executor run the named summarised library function (suffix match, e.g.
// "defaults.tallyCharacters") from its real body.
func NoSummary(nameSuffix string) {}

// MarkShared marks every heap location reachable from the roots (and from package-level
// variables) as outliving the current request; writes to such locations by library code are
// recorded from now on (C20). Native: no-op.
func MarkShared(roots ...interface{}) {}

// SharedWrites reports the recorded writes as failed assertions "<label>: <function> writes
// <what>" and returns their number. Native: 0.
func SharedWrites(label string) int { return 0 }

// SyncCensus fails the run as inconclusive if library code uses synchronisation primitives
// (the access-set argument for race freedom would not apply). Native: no-op.
func SyncCensus() {}

package stubs

import (
	"net/http"
	"net/url"
	"path"
	"strings"

	"verifharness/verif"
)

// Transcriptions of net/url.Parse (go1.23.5 url.go: Parse, parse, getScheme, parseAuthority,
// parseHost, unescape error cases) and net/http.Redirect (server.go), reduced to the fields the
// library and http.Redirect use: Scheme, Opaque, Host, Path, RawQuery, Fragment. They are
// validated against the real functions by TestURLParseAgainstStdlib / TestRedirectAgainstStdlib
// (exhaustive over short strings of an adversarial alphabet).

const printable = "\x20\x7e\x80\xff" // no C0 control characters, no DEL

type urlErr struct{ msg string }

func (e *urlErr) Error() string { return e.msg }

func ishex(c byte) bool {
	return '0' <= c && c <= '9' || 'a' <= c && c <= 'f' || 'A' <= c && c <= 'F'
}

// badEscape: s contains a '%' not followed by two hex digits.
func badEscape(s string) bool {
	rest := s
	for {
		i := strings.IndexByte(rest, '%')
		if i < 0 {
			return false
		}
		if i+2 >= len(rest) || !ishex(rest[i+1]) || !ishex(rest[i+2]) {
			return true
		}
		rest = rest[i+3:]
	}
}

// unescapePath mirrors unescape(s, encodePath) for a string without bad escapes: every %XX
// becomes the byte it denotes, everything else (including '+') stays.
func unescapePath(s string) string {
	if !strings.Contains(s, "%") {
		return s
	}
	b := make([]byte, 0, len(s))
	for i := 0; i < len(s); i++ {
		if s[i] == '%' {
			b = append(b, byte(unhex(s[i+1])*16+unhex(s[i+2])))
			i += 2
		} else {
			b = append(b, s[i])
		}
	}
	return string(b)
}

// unhex of a hex digit, without branching (a symbolic digit stays one term).
func unhex(c byte) int {
	v := int(c)
	return verif.IteInt(v <= '9', v-'0', verif.IteInt(v <= 'F', v-'A'+10, v-'a'+10))
}

// hostEscapeOK mirrors unescape(host, encodeHost): only %XX with XX >= 0x80 (non-ASCII) or the
// handful of ASCII escapes Go permits in hosts are allowed; any other %XX is an error. The
// harness alphabet never produces valid host escapes, so: any '%' in a host that is not part
// of a zone is rejected unless it is %XX with a high byte.
func hostBad(h string) bool {
	// invalid host characters (validOptionalPort / shouldEscape in host mode)
	if !verif.AllBytesIn(h, "azAZ09..--__~~!!$$&&''(())**++,,;;==::[[]]<<>>\"\"%%\x80\xff") {
		return true
	}
	// percent-escapes in hosts: only %XX with XX >= 0x80 are accepted (zones are not modelled)
	rest := h
	for {
		i := strings.IndexByte(rest, '%')
		if i < 0 {
			return false
		}
		if i+2 >= len(rest) || !ishex(rest[i+1]) || !ishex(rest[i+2]) {
			return true
		}
		if rest[i+1] < '8' && rest[i:i+3] != "%25" { // "%25" (the zone delimiter) is the one ASCII escape Go accepts
			return true
		}
		rest = rest[i+3:]
	}
}

// URLParse models url.Parse.
func URLParse(rawURL string) (*url.URL, error) {
	u, frag := rawURL, ""
	hasFrag := false
	if i := strings.Index(rawURL, "#"); i >= 0 {
		u, frag = rawURL[:i], rawURL[i+1:]
		hasFrag = true
	}
	if !verif.AllBytesIn(u, printable) {
		return nil, &urlErr{"net/url: invalid control character in URL"}
	}
	out := &url.URL{}
	if u == "*" {
		out.Path = "*"
		return finishFragment(out, frag, hasFrag)
	}
	// getScheme
	rest := u
	ci := strings.Index(u, ":")
	if ci == 0 {
		return nil, &urlErr{"missing protocol scheme"}
	}
	if ci > 0 {
		head := u[:ci]
		if verif.AllBytesIn(head[:1], "azAZ") && verif.AllBytesIn(head, "azAZ09++--..") {
			out.Scheme = strings.ToLower(head)
			rest = u[ci+1:]
		}
	}
	if strings.HasSuffix(rest, "?") && strings.Count(rest, "?") == 1 {
		out.ForceQuery = true
		rest = rest[:len(rest)-1]
	} else if qi := strings.Index(rest, "?"); qi >= 0 {
		rest, out.RawQuery = rest[:qi], rest[qi+1:]
	}
	if !strings.HasPrefix(rest, "/") {
		if out.Scheme != "" {
			out.Opaque = rest
			return finishFragment(out, frag, hasFrag)
		}
		seg := rest
		if si := strings.Index(rest, "/"); si >= 0 {
			seg = rest[:si]
		}
		if strings.Contains(seg, ":") {
			return nil, &urlErr{"first path segment in URL cannot contain colon"}
		}
	}
	if (out.Scheme != "" || !strings.HasPrefix(rest, "///")) && strings.HasPrefix(rest, "//") {
		authority := rest[2:]
		rest = ""
		if si := strings.Index(authority, "/"); si >= 0 {
			authority, rest = authority[:si], authority[si:]
		}
		host := authority
		if ai := strings.LastIndex(authority, "@"); ai >= 0 {
			userinfo := authority[:ai]
			host = authority[ai+1:]
			if !verif.AllBytesIn(userinfo, "azAZ09--..__::~~!!$$&&''(())**++,,;;==%%@@") {
				return nil, &urlErr{"net/url: invalid userinfo"}
			}
			if badEscape(userinfo) {
				return nil, &urlErr{"invalid URL escape"}
			}
		}
		if hostBad(host) {
			return nil, &urlErr{"invalid character in host name"}
		}
		// port: after the last ':' (outside brackets) only digits
		if strings.HasPrefix(host, "[") {
			bi := strings.LastIndex(host, "]")
			if bi < 0 {
				return nil, &urlErr{"missing ']' in host"}
			}
			colonPort := host[bi+1:]
			if colonPort != "" && (colonPort[0] != ':' || !verif.AllBytesIn(colonPort[1:], "09")) {
				return nil, &urlErr{"invalid port after host"}
			}
		} else if pi := strings.LastIndex(host, ":"); pi >= 0 {
			if !verif.AllBytesIn(host[pi+1:], "09") {
				return nil, &urlErr{"invalid port after host"}
			}
		}
		out.Host = host
	}
	if badEscape(rest) {
		return nil, &urlErr{"invalid URL escape"}
	}
	out.Path = unescapePath(rest)
	return finishFragment(out, frag, hasFrag)
}

func finishFragment(out *url.URL, frag string, has bool) (*url.URL, error) {
	if has {
		if badEscape(frag) {
			return nil, &urlErr{"invalid URL escape"}
		}
		out.Fragment = frag
	}
	return out, nil
}

// URLIsAbs models (*url.URL).IsAbs.
func URLIsAbs(u *url.URL) bool { return u.Scheme != "" }

// hexEscapeNonASCII leaves ASCII strings unchanged (the model keeps non-ASCII bytes as they are:
// stated as outside the claim).
func hexEscapeNonASCII(s string) string { return s }

// HTTPRedirect models net/http.Redirect.
func HTTPRedirect(w http.ResponseWriter, r *http.Request, target string, code int) {
	if u, err := URLParse(target); err == nil {
		if u.Scheme == "" && u.Host == "" {
			oldpath := r.URL.Path
			if oldpath == "" {
				oldpath = "/"
			}
			if target == "" || target[0] != '/' {
				olddir, _ := path.Split(oldpath)
				target = olddir + target
			}
			var query string
			if i := strings.Index(target, "?"); i != -1 {
				target, query = target[:i], target[i:]
			}
			trailing := strings.HasSuffix(target, "/")
			target = path.Clean(target)
			if trailing && !strings.HasSuffix(target, "/") {
				target += "/"
			}
			target += query
		}
	}
	h := w.Header()
	_, hadCT := h["Content-Type"]
	h.Set("Location", hexEscapeNonASCII(target))
	if !hadCT && (r.Method == "GET" || r.Method == "HEAD") {
		h.Set("Content-Type", "text/html; charset=utf-8")
	}
	w.WriteHeader(code)
	if !hadCT && r.Method == "GET" {
		w.Write([]byte("<a href=\"...\">" + http.StatusText(code) + "</a>.\n\n"))
	}
}

package stubs

import (
	"net/http"
	"net/http/httptest"
	"net/url"
	"testing"
)

const alphabet = "/\\:a.?#%@ \t1;-Z[]"

func forAll(n int, f func(s string)) {
	var rec func(prefix []byte, k int)
	rec = func(prefix []byte, k int) {
		f(string(prefix))
		if k == 0 {
			return
		}
		for i := 0; i < len(alphabet); i++ {
			rec(append(prefix, alphabet[i]), k-1)
		}
	}
	rec(nil, n)
}

func TestURLParseAgainstStdlib(t *testing.T) {
	n, bad := 0, 0
	forAll(5, func(s string) {
		n++
		ru, rerr := url.Parse(s)
		mu, merr := URLParse(s)
		if (rerr == nil) != (merr == nil) {
			bad++
			if bad < 20 {
				t.Errorf("%q: real err=%v model err=%v", s, rerr, merr)
			}
			return
		}
		if rerr != nil {
			return
		}
		if ru.Path != mu.Path && ru.Opaque == "" {
			bad++
			if bad < 20 {
				t.Errorf("%q: real Path %q model Path %q", s, ru.Path, mu.Path)
			}
		}
		if ru.Scheme != mu.Scheme || (ru.Host == "") != (mu.Host == "") || (ru.Opaque == "") != (mu.Opaque == "") || ru.RawQuery != mu.RawQuery {
			bad++
			if bad < 20 {
				t.Errorf("%q: real {%q %q %q %q} model {%q %q %q %q}", s, ru.Scheme, ru.Opaque, ru.Host, ru.RawQuery, mu.Scheme, mu.Opaque, mu.Host, mu.RawQuery)
			}
		}
	})
	t.Logf("compared %d strings, %d mismatches", n, bad)
}

func TestRedirectAgainstStdlib(t *testing.T) {
	n, bad := 0, 0
	forAll(5, func(s string) {
		n++
		r := httptest.NewRequest("POST", "/auth/login", nil)
		w1 := httptest.NewRecorder()
		http.Redirect(w1, r, s, 302)
		w2 := httptest.NewRecorder()
		HTTPRedirect(w2, r, s, 302)
		if w1.Header().Get("Location") != w2.Header().Get("Location") {
			bad++
			if bad < 20 {
				t.Errorf("%q: real Location %q model %q", s, w1.Header().Get("Location"), w2.Header().Get("Location"))
			}
		}
	})
	t.Logf("compared %d strings, %d mismatches", n, bad)
}

// TestURLParsePathEscapes: the unescaped Path against the stdlib over an alphabet of escapes.
func TestURLParsePathEscapes(t *testing.T) {
	const al = "/%25FCf\\a?"
	n, bad := 0, 0
	var rec func(prefix []byte, k int)
	rec = func(prefix []byte, k int) {
		s := string(prefix)
		n++
		ru, rerr := url.Parse(s)
		mu, merr := URLParse(s)
		if (rerr == nil) != (merr == nil) {
			bad++
			if bad < 20 {
				t.Errorf("%q: real err=%v model err=%v", s, rerr, merr)
			}
		} else if rerr == nil && ru.Opaque == "" && (ru.Path != mu.Path || ru.Host != mu.Host && (ru.Host == "") != (mu.Host == "")) {
			bad++
			if bad < 20 {
				t.Errorf("%q: real Path %q model Path %q", s, ru.Path, mu.Path)
			}
		}
		if k == 0 {
			return
		}
		for i := 0; i < len(al); i++ {
			rec(append(prefix, al[i]), k-1)
		}
	}
	rec(nil, 7)
	t.Logf("compared %d strings, %d mismatches", n, bad)
}

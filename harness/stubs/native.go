package stubs

import (
	"crypto/sha256"
	"encoding/hex"
	"net/url"

	"verifharness/verif"
)

func init() {
	verif.NativeUF["qescape"] = func(a ...string) string { return url.QueryEscape(a[0]) }
	verif.NativeUF["ideal_hash"] = func(a ...string) string {
		h := sha256.Sum256([]byte(a[0]))
		return hex.EncodeToString(h[:])[:20]
	}
	verif.NativeUF["pescape"] = func(a ...string) string { return url.PathEscape(a[0]) }
}

package stubs

import (
	"io"
	"net/http"
	"net/textproto"
	"net/url"
	"sort"
	"strings"

	"verifharness/verif"
)

// ---- http.Header (canonical keys; the library only uses constant keys)

func HeaderSet(h http.Header, key, value string) {
	h[textproto.CanonicalMIMEHeaderKey(key)] = []string{value}
}

func HeaderAdd(h http.Header, key, value string) {
	k := textproto.CanonicalMIMEHeaderKey(key)
	h[k] = append(h[k], value)
}

func HeaderGet(h http.Header, key string) string {
	if h == nil {
		return ""
	}
	v := h[textproto.CanonicalMIMEHeaderKey(key)]
	if len(v) == 0 {
		return ""
	}
	return v[0]
}

func HeaderDel(h http.Header, key string) { delete(h, textproto.CanonicalMIMEHeaderKey(key)) }

func HandlerFuncServeHTTP(f http.HandlerFunc, w http.ResponseWriter, r *http.Request) { f(w, r) }

// ---- url.Values

func ValuesGet(v url.Values, key string) string {
	if v == nil {
		return ""
	}
	vs := v[key]
	if len(vs) == 0 {
		return ""
	}
	return vs[0]
}

func ValuesSet(v url.Values, key, value string) { v[key] = []string{value} }
func ValuesDel(v url.Values, key string)        { delete(v, key) }
func ValuesHas(v url.Values, key string) bool   { _, ok := v[key]; return ok }

// ValuesEncode: "k=v&k2=v2" sorted by key, both sides query-escaped.
func ValuesEncode(v url.Values) string {
	if len(v) == 0 {
		return ""
	}
	keys := make([]string, 0, len(v))
	for k := range v {
		keys = append(keys, k)
	}
	sort.Strings(keys)
	var sb strings.Builder
	for _, k := range keys {
		ke := QueryEscape(k)
		for _, val := range v[k] {
			if sb.Len() > 0 {
				sb.WriteByte('&')
			}
			sb.WriteString(ke)
			sb.WriteByte('=')
			sb.WriteString(QueryEscape(val))
		}
	}
	return sb.String()
}

// QueryEscape / PathEscape: injective encodings (uninterpreted under the executor), except
// that strings whose characters are individually known (constants, verif.Chars inputs) are
// escaped by QueryEscapeChars, a transcription of the real algorithm.
func QueryEscape(s string) string { return verif.UFStr("qescape", s) }

const upperhex = "0123456789ABCDEF"

// QueryEscapeChars transcribes url.QueryEscape (escape(s, encodeQueryComponent)).
func QueryEscapeChars(s string) string {
	out := make([]byte, 0, 3*len(s))
	for i := 0; i < len(s); i++ {
		c := s[i]
		switch {
		case 'a' <= c && c <= 'z' || 'A' <= c && c <= 'Z' || '0' <= c && c <= '9' || c == '-' || c == '_' || c == '.' || c == '~':
			out = append(out, c)
		case c == ' ':
			out = append(out, '+')
		default:
			out = append(out, '%', hexDigit(c>>4), hexDigit(c&15))
		}
	}
	return string(out)
}

func hexDigit(n byte) byte {
	if n < 10 {
		return '0' + n
	}
	return 'A' + n - 10
}
func PathEscape(s string) string  { return verif.UFStr("pescape", s) }

// ---- *http.Request form access over the harness request model: r.Form is pre-populated by
// the harness; ParseForm is a no-op.

func RequestParseForm(r *http.Request) error {
	if r.Form == nil {
		r.Form = url.Values{}
	}
	return nil
}

func RequestFormValue(r *http.Request, key string) string {
	if r.Form == nil {
		return ""
	}
	vs := r.Form[key]
	if len(vs) == 0 {
		return ""
	}
	return vs[0]
}

// Queries holds the parsed query of request URLs built by the harness (url.URL has no room
// for it). URLQuery of an unregistered URL with a non-empty RawQuery is not modelled.
var Queries = map[*url.URL]url.Values{}

func URLQuery(u *url.URL) url.Values {
	if q, ok := Queries[u]; ok {
		c := url.Values{}
		for k, v := range q {
			c[k] = append([]string{}, v...)
		}
		return c
	}
	if u.RawQuery == "" {
		return url.Values{}
	}
	panic("stubs.URLQuery: query of this URL is not modelled")
}

func URLString(u *url.URL) string {
	s := u.Path
	if u.RawQuery != "" {
		s += "?" + u.RawQuery
	}
	return s
}

// ---- body

// BodyOf holds request bodies (JSON mode) keyed by reader identity.
type StringBody struct{ S string }

func (b *StringBody) Read(p []byte) (int, error) { return 0, io.EOF }
func (b *StringBody) Close() error               { return nil }

func IOReadAll(r io.Reader) ([]byte, error) {
	if sb, ok := r.(*StringBody); ok {
		return []byte(sb.S), nil
	}
	panic("stubs.IOReadAll: reader not modelled")
}

// ---- misc net/http

func HTTPError(w http.ResponseWriter, msg string, code int) {
	w.Header().Set("Content-Type", "text/plain; charset=utf-8")
	w.WriteHeader(code)
	w.Write([]byte(msg + "\n"))
}

func HTTPNotFound(w http.ResponseWriter, r *http.Request) { HTTPError(w, "404 page not found", 404) }

func HTTPNotFoundHandler() http.Handler { return http.HandlerFunc(HTTPNotFound) }

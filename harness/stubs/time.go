package stubs

import "time"

type timeT = time.Time

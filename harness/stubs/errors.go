// Package stubs holds Go-level models of standard-library and third-party functions. The
// symbolic executor redirects calls of the modelled functions here (see engine table).
package stubs

import (
	"context"
	"fmt"
)

// Err is the error type produced by the modelled error constructors.
type Err struct {
	Msg   string
	Inner error
}

func (e *Err) Error() string { return e.Msg }
func (e *Err) Unwrap() error { return e.Inner }

func ErrorsNew(msg string) error { return &Err{Msg: msg} }

func ErrorsErrorf(format string, args ...interface{}) error {
	return &Err{Msg: fmt.Sprintf(format, args...)}
}

func ErrorsWrap(err error, msg string) error {
	if err == nil {
		return nil
	}
	return &Err{Msg: msg + ": " + err.Error(), Inner: err}
}

func ErrorsWrapf(err error, format string, args ...interface{}) error {
	if err == nil {
		return nil
	}
	return &Err{Msg: fmt.Sprintf(format, args...) + ": " + err.Error(), Inner: err}
}

func ErrorsWithStack(err error) error { return err }

func ErrorsCause(err error) error {
	for err != nil {
		e, ok := err.(*Err)
		if !ok || e.Inner == nil {
			break
		}
		err = e.Inner
	}
	return err
}

// ---- context

type emptyCtx struct{}

func (emptyCtx) Value(key interface{}) interface{} { return nil }

type valueCtx struct {
	parent   Valuer
	key, val interface{}
}

// Valuer is the part of context.Context the library uses.
type Valuer interface {
	Value(key interface{}) interface{}
}

func (c *valueCtx) Value(key interface{}) interface{} {
	if c.key == key {
		return c.val
	}
	return c.parent.Value(key)
}

// The stub context types implement context.Context so that they can flow through
// context.Context-typed variables of the library.
func (emptyCtx) Deadline() (deadline timeT, ok bool)  { return }
func (emptyCtx) Done() <-chan struct{}                { return nil }
func (emptyCtx) Err() error                           { return nil }
func (*valueCtx) Deadline() (deadline timeT, ok bool) { return }
func (*valueCtx) Done() <-chan struct{}               { return nil }
func (*valueCtx) Err() error                          { return nil }

func CtxBackground() context.Context { return emptyCtx{} }

func CtxWithValue(parent context.Context, key, val interface{}) context.Context {
	if parent == nil {
		panic("cannot create context from nil parent")
	}
	return &valueCtx{parent: parent, key: key, val: val}
}

package stubs

import (
	"verifharness/verif"
)

// Ideal salted hash used for both the pluggable authboss.Hasher of the world model and the
// library's direct bcrypt calls (recovery codes): hash = "$2a$" + salt(8) + H(salt+password).
// bcrypt's contract is kept: passwords longer than 72 bytes are rejected by
// GenerateFromPassword (x/crypto >= v0.5); the algorithm itself only ever reads the first 72
// bytes of the key, so Compare succeeds iff the first 72 bytes of the password are the ones
// the hash was generated from.

const BcPrefix = "$2a$"
const BcSaltLen = 8

type bcErr struct{ msg string }

func (e *bcErr) Error() string { return e.msg }

var ErrMismatchedHashAndPassword = &bcErr{"crypto/bcrypt: hashedPassword is not the hash of the given password"}
var ErrPasswordTooLong = &bcErr{"bcrypt: password length exceeds 72 bytes"}
var ErrHashTooShort = &bcErr{"crypto/bcrypt: hashedSecret too short to be a bcrypted password"}

// BcMake builds the hash of p with the given 8-byte salt: prefix + salt + H(salt + p) where H
// is an ideal (injective, fixed-length, hex) hash — uninterpreted under the executor, a
// truncated SHA-256 natively. The plaintext is not recoverable from the stored value.
func BcMake(p, salt string) string { return BcPrefix + salt + verif.UFStr("ideal_hash", salt+bcKey(p)) }

// bcKey: the part of the password bcrypt's key schedule reads.
func bcKey(p string) string {
	if len(p) > 72 {
		return p[:72]
	}
	return p
}

const bcLen = len(BcPrefix) + BcSaltLen + 20

// BcMatches is the ground truth "p is the password hashed into h".
func BcMatches(h, p string) bool {
	if len(h) != bcLen || h[:len(BcPrefix)] != BcPrefix {
		return false
	}
	salt := h[len(BcPrefix) : len(BcPrefix)+BcSaltLen]
	return h[len(BcPrefix)+BcSaltLen:] == verif.UFStr("ideal_hash", salt+bcKey(p))
}

func BcryptGenerateFromPassword(password []byte, cost int) ([]byte, error) {
	if len(password) > 72 {
		return nil, ErrPasswordTooLong
	}
	return []byte(BcMake(string(password), verif.FreshString("bcsalt!alnum", BcSaltLen))), nil
}

// BcryptCost models bcrypt.Cost: it parses the textual shape of a real bcrypt hash
// ("$2" + minor + "$" + two cost digits + "$" + 53 characters, at least 59 bytes). The ideal
// hashes of this model are shorter and are rejected like any other string that is not a hash.
func BcryptCost(h []byte) (int, error) {
	if len(h) < 59 {
		return 0, ErrHashTooShort
	}
	if h[0] != '$' || h[1] != '2' {
		return 0, &bcErr{"crypto/bcrypt: bcrypt hashes must start with '$2'"}
	}
	n := 2
	if h[2] != '$' {
		n = 3
	}
	if h[n] != '$' || h[n+1] < '0' || h[n+1] > '9' || h[n+2] < '0' || h[n+2] > '9' {
		return 0, &bcErr{"crypto/bcrypt: malformed cost"}
	}
	cost := int(h[n+1]-'0')*10 + int(h[n+2]-'0')
	if cost < 4 || cost > 31 {
		return 0, &bcErr{"crypto/bcrypt: cost out of range"}
	}
	return cost, nil
}

func BcryptCompareHashAndPassword(hash, password []byte) error {
	if BcMatches(string(hash), string(password)) {
		return nil
	}
	return ErrMismatchedHashAndPassword
}

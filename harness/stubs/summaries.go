package stubs

import (
	"crypto/sha512"
	"encoding/base64"

	"verifharness/verif"
)

// Contracts of the library's random-code generators (checked against the real bodies by the
// generator kernels): each returns fresh arbitrary strings of the documented shape.

// SummarySMSCode: sms2fa.generateRandomCode — six characters.
func SummarySMSCode() (string, error) { return verif.FreshString("smscode", 6), nil }

// SummaryRecoveryCodes: twofactor.GenerateRecoveryCodes — ten codes "xxxxx-xxxxx".
func SummaryRecoveryCodes() ([]string, error) {
	codes := make([]string, 10)
	for i := range codes {
		codes[i] = verif.FreshString("recoverycode!alnum", 5) + "-" + verif.FreshString("recoverycode!alnum", 5)
	}
	return codes, nil
}

// SummaryGenerateOTP: otp.generateOTP — a 35-character one-time password and the base64 of its SHA-512.
func SummaryGenerateOTP() (string, string, error) {
	otp := verif.FreshString("otp", 35)
	sum := sha512.Sum512([]byte(otp))
	return otp, base64.StdEncoding.EncodeToString(sum[:]), nil
}

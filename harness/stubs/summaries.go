package stubs

import (
	"crypto/sha512"
	"encoding/base64"

	"github.com/volatiletech/authboss/v3"
	"github.com/volatiletech/authboss/v3/defaults"

	"verifharness/verif"
)

// Contracts of the library's random-code generators (checked against the real bodies by the
// generator kernels): each returns fresh arbitrary strings of the documented shape.

// SummarySMSCode: sms2fa.generateRandomCode — six characters.
func SummarySMSCode() (string, error) {
	code := verif.FreshString("smscode", 6)
	for _, c := range OutstandingCodes {
		verif.Assume(code != c) // fresh randomness differs from codes already outstanding (negligible collision probability)
	}
	return code, nil
}

// OutstandingCodes: codes the harness declares outstanding; freshly generated SMS codes are
// assumed to differ from them.
var OutstandingCodes []string

// SummaryRecoveryCodes: twofactor.GenerateRecoveryCodes — ten codes "xxxxx-xxxxx".
func SummaryRecoveryCodes() ([]string, error) {
	codes := make([]string, 10)
	for i := range codes {
		codes[i] = verif.FreshString("recoverycode!alnum", 5) + "-" + verif.FreshString("recoverycode!alnum", 5)
	}
	return codes, nil
}

// SummaryGenerateOTP: otp.generateOTP — a 35-character one-time password and the base64 of its SHA-512.
func SummaryGenerateOTP() (string, string, error) {
	otp := verif.FreshString("otp", 35)
	sum := sha512.Sum512([]byte(otp))
	return otp, base64.StdEncoding.EncodeToString(sum[:]), nil
}

// LastTally holds the counts produced by the most recent SummaryTallyCharacters call (so that
// harnesses can relate them to the decision the caller made).
var LastTally [5]int

// SummaryTallyCharacters: defaults.tallyCharacters — five non-negative class counts that
// partition the characters of s (checked against the real body by C19_TallyCharacters).
func SummaryTallyCharacters(s string) (upper, lower, numeric, symbols, whitespace int) {
	n := len(s)
	upper = verif.Int("tally_upper", 0, 64)
	lower = verif.Int("tally_lower", 0, 64)
	numeric = verif.Int("tally_numeric", 0, 64)
	symbols = verif.Int("tally_symbols", 0, 64)
	whitespace = n - upper - lower - numeric - symbols
	verif.Assume(whitespace >= 0)
	LastTally = [5]int{upper, lower, numeric, symbols, whitespace}
	return
}

// Blank: the value consists of whitespace only (Go regexp \s: tab, newline, form feed, carriage return, space).
func Blank(s string) bool { return verif.AllBytesIn(s, "\t\n\x0c\r  ") }

// RulesAccept is the reference policy of defaults.Rules without MustMatch: required / length
// window / per-class minima / whitespace rule, over the class counts of the value.
func RulesAccept(r defaults.Rules, ln int, t [5]int, blank bool) bool {
	req := verif.Not(verif.And(r.Required, verif.Or(ln == 0, blank)))
	length := verif.And(verif.Not(verif.And(r.MinLength > 0, ln < r.MinLength)), verif.Not(verif.And(r.MaxLength > 0, ln > r.MaxLength)))
	classes := verif.And(verif.And(t[0]+t[1] >= r.MinLetters, verif.And(t[0] >= r.MinUpper, t[1] >= r.MinLower)), verif.And(t[2] >= r.MinNumeric, t[3] >= r.MinSymbols))
	ws := verif.Or(r.AllowWhitespace, t[4] == 0)
	return verif.And(verif.And(req, length), verif.And(classes, ws))
}

// SummaryRulesErrors: (defaults.Rules).Errors — nil exactly when the reference policy accepts
// (proved of the real body by C19_RulesExact), otherwise a non-empty error list.
func SummaryRulesErrors(r defaults.Rules, s string) authboss.ErrorList {
	u, l, n, sy, w := SummaryTallyCharacters(s)
	ok := RulesAccept(r, len(s), [5]int{u, l, n, sy, w}, Blank(s))
	if r.MustMatch != nil {
		ok = verif.And(ok, verif.Or(verif.And(r.Required, verif.Or(len(s) == 0, Blank(s))), r.MustMatch.MatchString(s)))
	}
	if ok {
		return nil
	}
	return authboss.ErrorList{defaults.NewFieldError(r.FieldName, ErrorsNew("does not meet the policy"))}
}

package world

import (
	"io"
	"net/http"
	"strings"

	"github.com/volatiletech/authboss/v3"
)

// Jar is a client-state store (session or cookies): per key a presence bit and a value.
type Jar struct {
	Keys    []string
	Present []bool
	Vals    []string

	WriteCalls int
	Events     []authboss.ClientStateEvent // all events delivered, in order
	FailWrite  bool
	Name       string    // for traces
	Trace      *[]string // optional shared order log ("WriteState:<name>")
}

// NewJar creates an empty jar.
func NewJar() *Jar { return &Jar{} }

// Set puts a value (harness side, for building pre-states).
func (j *Jar) Set(key, val string) { j.SetP(key, val, true) }

// SetP sets a key with an explicit (possibly symbolic) presence bit.
func (j *Jar) SetP(key, val string, present bool) {
	for i, k := range j.Keys {
		if k == key {
			j.Present[i] = present
			j.Vals[i] = val
			return
		}
	}
	j.Keys = append(j.Keys, key)
	j.Present = append(j.Present, present)
	j.Vals = append(j.Vals, val)
}

// Del removes a key.
func (j *Jar) Del(key string) {
	for i, k := range j.Keys {
		if k == key {
			j.Present[i] = false
			j.Vals[i] = ""
		}
	}
}

// Lookup returns value and presence (harness side; no copy).
func (j *Jar) Lookup(key string) (string, bool) {
	for i, k := range j.Keys {
		if k == key {
			if j.Present[i] {
				return j.Vals[i], true
			}
			return "", false
		}
	}
	return "", false
}

// Lookup2 returns the raw value and presence bit without branching (the value is
// meaningful only when present).
func (j *Jar) Lookup2(key string) (string, bool) {
	for i, k := range j.Keys {
		if k == key {
			return j.Vals[i], j.Present[i]
		}
	}
	return "", false
}

// Has reports presence without forking on the value.
func (j *Jar) Has(key string) bool {
	for i, k := range j.Keys {
		if k == key {
			return j.Present[i]
		}
	}
	return false
}

// Snapshot copies the jar.
func (j *Jar) Snapshot() *Jar {
	c := &Jar{}
	c.Keys = append(c.Keys, j.Keys...)
	c.Present = append(c.Present, j.Present...)
	c.Vals = append(c.Vals, j.Vals...)
	return c
}

type jarState struct{ j *Jar }

func (s jarState) Get(key string) (string, bool) { return s.j.Lookup(key) }

// ReadState hands the request a snapshot: what the request sees does not change while it runs.
func (j *Jar) ReadState(*http.Request) (authboss.ClientState, error) {
	return jarState{j.Snapshot()}, nil
}

// WriteState applies the events as client_state.go documents them.
func (j *Jar) WriteState(w http.ResponseWriter, st authboss.ClientState, evs []authboss.ClientStateEvent) error {
	j.WriteCalls++
	if j.Trace != nil {
		*j.Trace = append(*j.Trace, "WriteState:"+j.Name)
	}
	if j.FailWrite {
		return ErrInjected
	}
	for _, e := range evs {
		j.Events = append(j.Events, e)
		switch e.Kind {
		case authboss.ClientStateEventPut:
			j.Set(e.Key, e.Value)
		case authboss.ClientStateEventDel:
			j.Del(e.Key)
		case authboss.ClientStateEventDelAll:
			var white []string
			if len(e.Key) != 0 {
				white = strings.Split(e.Key, ",")
			}
			for i, k := range j.Keys {
				keep := false
				for _, wk := range white {
					if wk == k {
						keep = true
					}
				}
				if !keep {
					j.Present[i] = false
					j.Vals[i] = ""
				}
			}
		}
	}
	return nil
}

// Recorder is the underlying http.ResponseWriter.
type Recorder struct {
	Hdr         http.Header
	Code        int
	Body        []byte
	WroteHeader bool
	Calls       []string // "WriteHeader", "Write" in order
	Trace       *[]string
}

func NewRecorder() *Recorder { return &Recorder{Hdr: http.Header{}} }

func (r *Recorder) Header() http.Header { return r.Hdr }

func (r *Recorder) WriteHeader(code int) {
	r.Calls = append(r.Calls, "WriteHeader")
	if r.Trace != nil {
		*r.Trace = append(*r.Trace, "WriteHeader")
	}
	if r.WroteHeader {
		return
	}
	r.WroteHeader = true
	r.Code = code
}

// ReadFrom makes the recorder an io.ReaderFrom, like net/http's own response writer (io.Copy
// uses it when the destination offers it). It records the copy as a body write.
func (r *Recorder) ReadFrom(src io.Reader) (int64, error) {
	r.Calls = append(r.Calls, "ReadFrom")
	if r.Trace != nil {
		*r.Trace = append(*r.Trace, "Write")
	}
	if !r.WroteHeader {
		r.WroteHeader = true
		r.Code = 200
	}
	return 0, nil
}

func (r *Recorder) Write(b []byte) (int, error) {
	r.Calls = append(r.Calls, "Write")
	if r.Trace != nil {
		*r.Trace = append(*r.Trace, "Write")
	}
	if !r.WroteHeader {
		r.WroteHeader = true
		r.Code = 200
	}
	r.Body = append(r.Body, b...)
	return len(b), nil
}

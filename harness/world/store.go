package world

import (
	"context"

	"github.com/volatiletech/authboss/v3"
)

// RMToken is one remember-me token record.
type RMToken struct {
	PID    string
	Hash   string
	Serial int // ghost: insertion number (harness-only; lets oracles identify entries without comparing hashes)
}

// Store is a ServerStorer with database semantics: Load returns copies, only Save/Create
// write back. It implements the creating, confirming, recovering, remembering and OAuth2
// storer interfaces.
type Store struct {
	Users  []Record // nil entries are free slots
	Plain  bool     // New() and NewFromOAuth2 create PlainUser records
	Tokens []RMToken

	// Fault, if set, is consulted at the start of every call; returning true makes the call
	// fail with ErrInjected.
	Fault func(site string) bool

	// Effects is the ordered log of storage calls ("Save:<pid>", "UseRememberToken", ...)
	Effects []string
	Saves   int
	serial  int
}

// Seed adds a remember token to the table (pre-state construction) and returns its serial.
func (s *Store) Seed(pid, hash string) int {
	s.serial++
	s.Tokens = append(s.Tokens, RMToken{PID: pid, Hash: hash, Serial: s.serial})
	return s.serial
}

// HasSerial reports whether the token with that serial is still in the table.
func (s *Store) HasSerial(n int) bool {
	for _, t := range s.Tokens {
		if t.Serial == n {
			return true
		}
	}
	return false
}

// ErrInjected is the storage failure injected by fault plans.
var ErrInjected = &injected{"injected storage failure"}

type injected struct{ msg string }

func (e *injected) Error() string { return e.msg }

func (s *Store) fault(site string) bool {
	s.Effects = append(s.Effects, site)
	return s.Fault != nil && s.Fault(site)
}

func (s *Store) find(pid string) int {
	for i, u := range s.Users {
		if u != nil && u.B().PID == pid {
			return i
		}
	}
	return -1
}

// Get returns the stored fields (not a copy) for harness inspection; nil if absent.
func (s *Store) Get(pid string) *UserBase {
	if i := s.find(pid); i >= 0 {
		return s.Users[i].B()
	}
	return nil
}

// GetRec returns the stored record itself; nil if absent.
func (s *Store) GetRec(pid string) Record {
	if i := s.find(pid); i >= 0 {
		return s.Users[i]
	}
	return nil
}

func (s *Store) put(r Record) {
	for i, x := range s.Users {
		if x == nil {
			s.Users[i] = r
			return
		}
	}
	s.Users = append(s.Users, r)
}

func (s *Store) Load(ctx context.Context, key string) (authboss.User, error) {
	if s.fault("Load") {
		return nil, ErrInjected
	}
	i := s.find(key)
	if i < 0 {
		return nil, authboss.ErrUserNotFound
	}
	return s.Users[i].CloneR().(authboss.User), nil
}

func (s *Store) Save(ctx context.Context, user authboss.User) error {
	if s.fault("Save") {
		return ErrInjected
	}
	u := user.(Record)
	i := s.find(u.B().PID)
	if i < 0 {
		return authboss.ErrUserNotFound
	}
	s.Users[i] = u.CloneR()
	s.Saves++
	return nil
}

func (s *Store) New(ctx context.Context) authboss.User {
	if s.Plain {
		return &PlainUser{}
	}
	return &User{}
}

func (s *Store) Create(ctx context.Context, user authboss.User) error {
	if s.fault("Create") {
		return ErrInjected
	}
	u := user.(Record)
	if s.find(u.B().PID) >= 0 {
		return authboss.ErrUserFound
	}
	s.put(u.CloneR())
	s.Saves++
	return nil
}

func (s *Store) LoadByConfirmSelector(ctx context.Context, selector string) (authboss.ConfirmableUser, error) {
	if s.fault("LoadByConfirmSelector") {
		return nil, ErrInjected
	}
	for _, u := range s.Users {
		if u != nil && u.B().ConfirmSelector == selector {
			return u.CloneR().(authboss.ConfirmableUser), nil
		}
	}
	return nil, authboss.ErrUserNotFound
}

func (s *Store) LoadByRecoverSelector(ctx context.Context, selector string) (authboss.RecoverableUser, error) {
	if s.fault("LoadByRecoverSelector") {
		return nil, ErrInjected
	}
	for _, u := range s.Users {
		if u != nil && u.B().RecoverSelector == selector {
			return u.CloneR().(authboss.RecoverableUser), nil
		}
	}
	return nil, authboss.ErrUserNotFound
}

func (s *Store) AddRememberToken(ctx context.Context, pid, token string) error {
	if s.fault("AddRememberToken") {
		return ErrInjected
	}
	s.serial++
	s.Tokens = append(s.Tokens, RMToken{PID: pid, Hash: token, Serial: s.serial})
	return nil
}

func (s *Store) DelRememberTokens(ctx context.Context, pid string) error {
	if s.fault("DelRememberTokens") {
		return ErrInjected
	}
	var keep []RMToken
	for _, t := range s.Tokens {
		if t.PID != pid {
			keep = append(keep, t)
		}
	}
	s.Tokens = keep
	return nil
}

func (s *Store) UseRememberToken(ctx context.Context, pid, token string) error {
	if s.fault("UseRememberToken") {
		return ErrInjected
	}
	for i, t := range s.Tokens {
		if t.PID == pid && t.Hash == token {
			s.Tokens = append(append([]RMToken{}, s.Tokens[:i]...), s.Tokens[i+1:]...)
			return nil
		}
	}
	return authboss.ErrTokenNotFound
}

func (s *Store) NewFromOAuth2(ctx context.Context, provider string, details map[string]string) (authboss.OAuth2User, error) {
	if s.fault("NewFromOAuth2") {
		return nil, ErrInjected
	}
	uid := details["uid"]
	pid := authboss.MakeOAuth2PID(provider, uid)
	if i := s.find(pid); i >= 0 {
		return s.Users[i].CloneR().(authboss.OAuth2User), nil
	}
	b := UserBase{PID: pid, Email: details["email"], OAuth2UID: uid, OAuth2Provider: provider, Confirmed: true}
	if s.Plain {
		return &PlainUser{UserBase: b}, nil
	}
	return &User{UserBase: b}, nil
}

func (s *Store) SaveOAuth2(ctx context.Context, user authboss.OAuth2User) error {
	if s.fault("SaveOAuth2") {
		return ErrInjected
	}
	u := user.(Record)
	if i := s.find(u.B().PID); i >= 0 {
		s.Users[i] = u.CloneR()
		s.Saves++
		return nil
	}
	s.put(u.CloneR())
	s.Saves++
	return nil
}

// PIDs lists the identifiers of all stored accounts (harness inspection).
func (s *Store) PIDs() []string {
	var out []string
	for _, u := range s.Users {
		if u != nil {
			out = append(out, u.B().PID)
		}
	}
	return out
}

package world

import (
	"net/http"
	"net/url"

	"github.com/volatiletech/authboss/v3"
)

// World wires an authboss instance to the model components.
type World struct {
	AB         *authboss.Authboss
	Store      *Store
	Session    *Jar
	Cookies    *Jar
	Router     *Router
	Body       *BodyReader
	Responder  *Responder
	Redirector *Redirector
	ErrH       *ErrorHandler
	Log        *Logger
	Mail       *Mailer
	SMS        *SMSSender
	Hasher     *Hasher
	Rec        *Recorder
}

// New creates a world with all model components plugged in (no modules loaded yet).
func New() *World {
	w := &World{
		AB:         authboss.New(),
		Store:      &Store{},
		Session:    NewJar(),
		Cookies:    NewJar(),
		Router:     NewRouter(),
		Body:       &BodyReader{},
		Responder:  &Responder{},
		Redirector: &Redirector{},
		Log:        &Logger{},
		Mail:       &Mailer{},
		SMS:        &SMSSender{},
		Hasher:     &Hasher{},
	}
	w.ErrH = &ErrorHandler{W: w}
	c := &w.AB.Config
	c.Storage.Server = w.Store
	c.Storage.SessionState = w.Session
	c.Storage.CookieState = w.Cookies
	c.Core.Router = w.Router
	c.Core.ErrorHandler = w.ErrH
	c.Core.Responder = w.Responder
	c.Core.Redirector = w.Redirector
	c.Core.BodyReader = w.Body
	c.Core.ViewRenderer = Renderer{}
	c.Core.MailRenderer = Renderer{}
	c.Core.Mailer = w.Mail
	c.Core.Hasher = w.Hasher
	c.Core.Logger = w.Log
	c.Modules.MailNoGoroutine = true
	return w
}

// Init loads the named modules (as an application would).
func (w *World) Init(modules ...string) {
	if err := w.AB.Init(modules...); err != nil {
		panic("authboss Init failed: " + err.Error())
	}
}

// Request builds a request for method and path with an optional raw query.
func Request(method, path, rawQuery string) *http.Request {
	return &http.Request{Method: method, URL: &url.URL{Path: path, RawQuery: rawQuery}, Header: http.Header{}, Form: url.Values{}}
}

// Serve runs handler h for request r the way an application does: behind
// LoadClientStateMiddleware, with a fresh recorder as the underlying writer. It returns the
// recorder. A panic inside the handler propagates.
func (w *World) Serve(h http.Handler, r *http.Request) *Recorder {
	rec := NewRecorder()
	w.Rec = rec
	w.AB.LoadClientStateMiddleware(h).ServeHTTP(rec, r)
	return rec
}

// Route returns the handler registered for "METHOD /path" or nil.
func (w *World) Route(key string) http.Handler { return w.Router.Routes[key] }

// ServeRoute serves the registered route (panics if it is not registered).
func (w *World) ServeRoute(method, path string, vals *Values) *Recorder {
	h := w.Route(method + " " + path)
	if h == nil {
		panic("route not registered: " + method + " " + path)
	}
	w.Body.Next = vals
	return w.Serve(h, Request(method, path, ""))
}

// Try runs f and reports whether it panicked (with the panic value).
func Try(f func()) (panicked bool, val interface{}) {
	defer func() {
		if r := recover(); r != nil {
			panicked = true
			val = r
		}
	}()
	f()
	return false, nil
}

// Package world is the environment authboss is plugged into by the harnesses: a storage layer
// with database (copy) semantics, session and cookie jars, recording responder / redirector /
// mailer / logger / router. It is ordinary Go: executed symbolically by gosym, natively for replay.
package world

import "time"

// User implements every optional user interface of the library (like mocks.User) with a
// separate PID field.
type User struct {
	PID      string
	Email    string
	Password string

	RecoverSelector    string
	RecoverVerifier    string
	RecoverTokenExpiry time.Time

	ConfirmSelector string
	ConfirmVerifier string
	Confirmed       bool

	AttemptCount int
	LastAttempt  time.Time
	Locked       time.Time

	OAuth2UID      string
	OAuth2Provider string
	OAuth2Token    string
	OAuth2Refresh  string
	OAuth2Expiry   time.Time

	OTPs           string
	TOTPSecretKey  string
	TOTPLastCode   string
	SMSPhoneNumber string
	RecoveryCodes  string

	Arbitrary map[string]string
}

func (u *User) GetPID() string                  { return u.PID }
func (u *User) GetEmail() string                { return u.Email }
func (u *User) GetPassword() string             { return u.Password }
func (u *User) GetRecoverSelector() string      { return u.RecoverSelector }
func (u *User) GetRecoverVerifier() string      { return u.RecoverVerifier }
func (u *User) GetRecoverExpiry() time.Time     { return u.RecoverTokenExpiry }
func (u *User) GetConfirmSelector() string      { return u.ConfirmSelector }
func (u *User) GetConfirmVerifier() string      { return u.ConfirmVerifier }
func (u *User) GetConfirmed() bool              { return u.Confirmed }
func (u *User) GetAttemptCount() int            { return u.AttemptCount }
func (u *User) GetLastAttempt() time.Time       { return u.LastAttempt }
func (u *User) GetLocked() time.Time            { return u.Locked }
func (u *User) IsOAuth2User() bool              { return len(u.OAuth2Provider) != 0 }
func (u *User) GetOAuth2UID() string            { return u.OAuth2UID }
func (u *User) GetOAuth2Provider() string       { return u.OAuth2Provider }
func (u *User) GetOAuth2AccessToken() string    { return u.OAuth2Token }
func (u *User) GetOAuth2RefreshToken() string   { return u.OAuth2Refresh }
func (u *User) GetOAuth2Expiry() time.Time      { return u.OAuth2Expiry }
func (u *User) GetArbitrary() map[string]string { return u.Arbitrary }
func (u *User) GetOTPs() string                 { return u.OTPs }
func (u *User) GetTOTPSecretKey() string        { return u.TOTPSecretKey }
func (u *User) GetTOTPLastCode() string         { return u.TOTPLastCode }
func (u *User) GetSMSPhoneNumber() string       { return u.SMSPhoneNumber }
func (u *User) GetRecoveryCodes() string        { return u.RecoveryCodes }

func (u *User) PutPID(pid string)                  { u.PID = pid }
func (u *User) PutEmail(email string)              { u.Email = email }
func (u *User) PutPassword(password string)        { u.Password = password }
func (u *User) PutRecoverSelector(s string)        { u.RecoverSelector = s }
func (u *User) PutRecoverVerifier(s string)        { u.RecoverVerifier = s }
func (u *User) PutRecoverExpiry(t time.Time)       { u.RecoverTokenExpiry = t }
func (u *User) PutConfirmSelector(s string)        { u.ConfirmSelector = s }
func (u *User) PutConfirmVerifier(s string)        { u.ConfirmVerifier = s }
func (u *User) PutConfirmed(c bool)                { u.Confirmed = c }
func (u *User) PutAttemptCount(n int)              { u.AttemptCount = n }
func (u *User) PutLastAttempt(t time.Time)         { u.LastAttempt = t }
func (u *User) PutLocked(t time.Time)              { u.Locked = t }
func (u *User) PutOAuth2UID(uid string)            { u.OAuth2UID = uid }
func (u *User) PutOAuth2Provider(p string)         { u.OAuth2Provider = p }
func (u *User) PutOAuth2AccessToken(t string)      { u.OAuth2Token = t }
func (u *User) PutOAuth2RefreshToken(t string)     { u.OAuth2Refresh = t }
func (u *User) PutOAuth2Expiry(t time.Time)        { u.OAuth2Expiry = t }
func (u *User) PutArbitrary(arb map[string]string) { u.Arbitrary = arb }
func (u *User) PutOTPs(otps string)                { u.OTPs = otps }
func (u *User) PutTOTPSecretKey(key string)        { u.TOTPSecretKey = key }
func (u *User) PutTOTPLastCode(code string)        { u.TOTPLastCode = code }
func (u *User) PutSMSPhoneNumber(number string)    { u.SMSPhoneNumber = number }
func (u *User) PutRecoveryCodes(codes string)      { u.RecoveryCodes = codes }

// Clone returns a copy (database semantics: Load hands out copies, Save copies back).
func (u *User) Clone() *User {
	c := *u
	if u.Arbitrary != nil {
		c.Arbitrary = map[string]string{}
		for k, v := range u.Arbitrary {
			c.Arbitrary[k] = v
		}
	}
	return &c
}

// UserNoTOTPOnce is a user type that does NOT implement totp2fa.UserOneTime (no replay guard)
// — it hides the last-code methods by embedding and shadowing.
type UserPlain struct{ *User }

// GetTOTPLastCode is deliberately absent on UserPlain: shadow with a differently-typed field.
// (Go has no method removal; UserPlain simply is not used where UserOneTime is required.)

// Package world is the environment authboss is plugged into by the harnesses: a storage layer
// with database (copy) semantics, session and cookie jars, recording responder / redirector /
// mailer / logger / router. It is ordinary Go: executed symbolically by gosym, natively for replay.
package world

import "time"

// UserBase implements every optional user interface of the library (like mocks.User, with a
// separate PID field) except totp2fa.UserOneTime.
type UserBase struct {
	PID      string
	Email    string
	Password string

	RecoverSelector    string
	RecoverVerifier    string
	RecoverTokenExpiry time.Time

	ConfirmSelector string
	ConfirmVerifier string
	Confirmed       bool

	AttemptCount int
	LastAttempt  time.Time
	Locked       time.Time

	OAuth2UID      string
	OAuth2Provider string
	OAuth2Token    string
	OAuth2Refresh  string
	OAuth2Expiry   time.Time

	OTPs           string
	TOTPSecretKey  string
	SMSPhoneNumber string
	RecoveryCodes  string

	Arbitrary map[string]string
}

func (u *UserBase) GetPID() string                  { return u.PID }
func (u *UserBase) GetEmail() string                { return u.Email }
func (u *UserBase) GetPassword() string             { return u.Password }
func (u *UserBase) GetRecoverSelector() string      { return u.RecoverSelector }
func (u *UserBase) GetRecoverVerifier() string      { return u.RecoverVerifier }
func (u *UserBase) GetRecoverExpiry() time.Time     { return u.RecoverTokenExpiry }
func (u *UserBase) GetConfirmSelector() string      { return u.ConfirmSelector }
func (u *UserBase) GetConfirmVerifier() string      { return u.ConfirmVerifier }
func (u *UserBase) GetConfirmed() bool              { return u.Confirmed }
func (u *UserBase) GetAttemptCount() int            { return u.AttemptCount }
func (u *UserBase) GetLastAttempt() time.Time       { return u.LastAttempt }
func (u *UserBase) GetLocked() time.Time            { return u.Locked }
func (u *UserBase) IsOAuth2User() bool              { return len(u.OAuth2Provider) != 0 }
func (u *UserBase) GetOAuth2UID() string            { return u.OAuth2UID }
func (u *UserBase) GetOAuth2Provider() string       { return u.OAuth2Provider }
func (u *UserBase) GetOAuth2AccessToken() string    { return u.OAuth2Token }
func (u *UserBase) GetOAuth2RefreshToken() string   { return u.OAuth2Refresh }
func (u *UserBase) GetOAuth2Expiry() time.Time      { return u.OAuth2Expiry }
func (u *UserBase) GetArbitrary() map[string]string { return u.Arbitrary }
func (u *UserBase) GetOTPs() string                 { return u.OTPs }
func (u *UserBase) GetTOTPSecretKey() string        { return u.TOTPSecretKey }
func (u *UserBase) GetSMSPhoneNumber() string       { return u.SMSPhoneNumber }
func (u *UserBase) GetRecoveryCodes() string        { return u.RecoveryCodes }

func (u *UserBase) PutPID(pid string)                  { u.PID = pid }
func (u *UserBase) PutEmail(email string)              { u.Email = email }
func (u *UserBase) PutPassword(password string)        { u.Password = password }
func (u *UserBase) PutRecoverSelector(s string)        { u.RecoverSelector = s }
func (u *UserBase) PutRecoverVerifier(s string)        { u.RecoverVerifier = s }
func (u *UserBase) PutRecoverExpiry(t time.Time)       { u.RecoverTokenExpiry = t }
func (u *UserBase) PutConfirmSelector(s string)        { u.ConfirmSelector = s }
func (u *UserBase) PutConfirmVerifier(s string)        { u.ConfirmVerifier = s }
func (u *UserBase) PutConfirmed(c bool)                { u.Confirmed = c }
func (u *UserBase) PutAttemptCount(n int)              { u.AttemptCount = n }
func (u *UserBase) PutLastAttempt(t time.Time)         { u.LastAttempt = t }
func (u *UserBase) PutLocked(t time.Time)              { u.Locked = t }
func (u *UserBase) PutOAuth2UID(uid string)            { u.OAuth2UID = uid }
func (u *UserBase) PutOAuth2Provider(p string)         { u.OAuth2Provider = p }
func (u *UserBase) PutOAuth2AccessToken(t string)      { u.OAuth2Token = t }
func (u *UserBase) PutOAuth2RefreshToken(t string)     { u.OAuth2Refresh = t }
func (u *UserBase) PutOAuth2Expiry(t time.Time)        { u.OAuth2Expiry = t }
func (u *UserBase) PutArbitrary(arb map[string]string) { u.Arbitrary = arb }
func (u *UserBase) PutOTPs(otps string)                { u.OTPs = otps }
func (u *UserBase) PutTOTPSecretKey(key string)        { u.TOTPSecretKey = key }
func (u *UserBase) PutSMSPhoneNumber(number string)    { u.SMSPhoneNumber = number }
func (u *UserBase) PutRecoveryCodes(codes string)      { u.RecoveryCodes = codes }

func (u *UserBase) cloneBase() UserBase {
	c := *u
	if u.Arbitrary != nil {
		c.Arbitrary = map[string]string{}
		for k, v := range u.Arbitrary {
			c.Arbitrary[k] = v
		}
	}
	return c
}

// B gives harnesses access to the fields.
func (u *UserBase) B() *UserBase { return u }

// Record is a stored user of either type.
type Record interface {
	GetPID() string
	PutPID(string)
	B() *UserBase
	CloneR() Record
}

// User additionally implements totp2fa.UserOneTime (TOTP replay protection).
type User struct {
	UserBase
	TOTPLastCode string
}

func (u *User) GetTOTPLastCode() string     { return u.TOTPLastCode }
func (u *User) PutTOTPLastCode(code string) { u.TOTPLastCode = code }

// Clone returns a copy (database semantics: Load hands out copies, Save copies back).
func (u *User) Clone() *User   { return &User{UserBase: u.cloneBase(), TOTPLastCode: u.TOTPLastCode} }
func (u *User) CloneR() Record { return u.Clone() }

// PlainUser does not implement totp2fa.UserOneTime.
type PlainUser struct{ UserBase }

func (u *PlainUser) CloneR() Record { return &PlainUser{UserBase: u.cloneBase()} }

// NewUser returns a User record with the given pid and e-mail.
func NewUser(pid, email string) *User { return &User{UserBase: UserBase{PID: pid, Email: email}} }

// Same reports whether two records agree on every field (Arbitrary maps compared by identity
// of content for the keys present in either).
func (u *UserBase) Same(o *UserBase) bool {
	eq := u.PID == o.PID && u.Email == o.Email && u.Password == o.Password
	eq = eq && u.RecoverSelector == o.RecoverSelector && u.RecoverVerifier == o.RecoverVerifier && u.RecoverTokenExpiry.Equal(o.RecoverTokenExpiry)
	eq = eq && u.ConfirmSelector == o.ConfirmSelector && u.ConfirmVerifier == o.ConfirmVerifier && u.Confirmed == o.Confirmed
	eq = eq && u.AttemptCount == o.AttemptCount && u.LastAttempt.Equal(o.LastAttempt) && u.Locked.Equal(o.Locked)
	eq = eq && u.OAuth2UID == o.OAuth2UID && u.OAuth2Provider == o.OAuth2Provider && u.OAuth2Token == o.OAuth2Token && u.OAuth2Refresh == o.OAuth2Refresh
	eq = eq && u.OTPs == o.OTPs && u.TOTPSecretKey == o.TOTPSecretKey && u.SMSPhoneNumber == o.SMSPhoneNumber && u.RecoveryCodes == o.RecoveryCodes
	return eq
}

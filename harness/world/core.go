package world

import (
	"context"
	"net/http"

	"github.com/volatiletech/authboss/v3"
	"verifharness/verif"
)

// Values is the typed request body handed to the handlers by the model BodyReader. It
// implements every *Valuer interface of the library; the fields are filled by the harness
// (symbolically).
type Values struct {
	PID          string
	Password     string
	Token        string
	Code         string
	RecoveryCode string
	PhoneNumber  string
	Remember     bool
	Arbitrary    map[string]string
	Invalid      bool // Validate() reports an error
}

func (v *Values) Validate() []error {
	if v.Invalid {
		return []error{fieldError{"field", "invalid"}}
	}
	return nil
}
func (v *Values) GetPID() string               { return v.PID }
func (v *Values) GetPassword() string          { return v.Password }
func (v *Values) GetToken() string             { return v.Token }
func (v *Values) GetCode() string              { return v.Code }
func (v *Values) GetRecoveryCode() string      { return v.RecoveryCode }
func (v *Values) GetPhoneNumber() string       { return v.PhoneNumber }
func (v *Values) GetShouldRemember() bool      { return v.Remember }
func (v *Values) GetValues() map[string]string { return v.Arbitrary }

type fieldError struct{ name, msg string }

func (f fieldError) Error() string { return f.name + ": " + f.msg }
func (f fieldError) Name() string  { return f.name }
func (f fieldError) Err() error    { return f }

// BodyReader returns the Values prepared for the current request.
type BodyReader struct {
	Next  *Values
	Fail  bool
	Pages []string
	// LoginOnly: the application's login and registration values carry an identifier and a
	// password and nothing else (authboss.UserValuer only: no RememberValuer, no ArbitraryValuer)
	LoginOnly bool
}

// LoginValues is the minimal login body: authboss.UserValuer only.
type LoginValues struct{ V *Values }

func (l LoginValues) Validate() []error   { return l.V.Validate() }
func (l LoginValues) GetPID() string      { return l.V.PID }
func (l LoginValues) GetPassword() string { return l.V.Password }

func (b *BodyReader) Read(page string, r *http.Request) (authboss.Validator, error) {
	b.Pages = append(b.Pages, page)
	if b.Fail {
		return nil, ErrInjected
	}
	if b.Next == nil {
		return &Values{}, nil
	}
	if b.LoginOnly && (page == "login" || page == "register") {
		return LoginValues{b.Next}, nil
	}
	return b.Next, nil
}

// Response is what the recording responder / redirector saw.
type Response struct {
	Kind     string // "respond" | "redirect" | ""
	Code     int
	Page     string
	Data     authboss.HTMLData
	Redirect authboss.RedirectOptions
}

// Responder records and writes a status + body (so that pending client-state events flush as
// they do with defaults.Responder).
type Responder struct {
	Last  Response
	Count int
	Fault func(site string) bool
}

func (p *Responder) Respond(w http.ResponseWriter, r *http.Request, code int, page string, data authboss.HTMLData) error {
	if p.Fault != nil && p.Fault("Respond") {
		return ErrInjected
	}
	p.Count++
	p.Last = Response{Kind: "respond", Code: code, Page: page, Data: data}
	w.WriteHeader(code)
	_, err := w.Write([]byte(page))
	return err
}

// Redirector records and writes a Location header + status.
type Redirector struct {
	Last  Response
	Count int
	Fault func(site string) bool
}

func (p *Redirector) Redirect(w http.ResponseWriter, r *http.Request, ro authboss.RedirectOptions) error {
	if p.Fault != nil && p.Fault("Redirect") {
		return ErrInjected
	}
	p.Count++
	p.Last = Response{Kind: "redirect", Code: ro.Code, Redirect: ro}
	w.Header().Set("Location", ro.RedirectPath)
	code := ro.Code
	if code == 0 {
		code = http.StatusFound
	}
	w.WriteHeader(code)
	return nil
}

// ErrorHandler wraps handlers; Write500 selects between the shipped silent behaviour (log
// only: pending client-state events are NOT flushed) and a handler that answers 500.
type ErrorHandler struct {
	Write500 bool
	Errs     []error
	W        *World
}

type errorWrapped struct {
	eh *ErrorHandler
	fn func(w http.ResponseWriter, r *http.Request) error
}

func (e errorWrapped) ServeHTTP(w http.ResponseWriter, r *http.Request) {
	err := e.fn(w, r)
	if err == nil {
		return
	}
	e.eh.Errs = append(e.eh.Errs, err)
	if e.eh.Write500 {
		w.WriteHeader(http.StatusInternalServerError)
	}
}

func (e *ErrorHandler) Wrap(fn func(w http.ResponseWriter, r *http.Request) error) http.Handler {
	return errorWrapped{eh: e, fn: fn}
}

// Router records routes.
type Router struct {
	Routes map[string]http.Handler // "GET /login"
	Order  []string
}

func NewRouter() *Router { return &Router{Routes: map[string]http.Handler{}} }

func (r *Router) add(m, path string, h http.Handler) {
	k := m + " " + path
	if _, ok := r.Routes[k]; !ok {
		r.Order = append(r.Order, k)
	}
	r.Routes[k] = h
}
func (r *Router) Get(path string, h http.Handler)    { r.add("GET", path, h) }
func (r *Router) Post(path string, h http.Handler)   { r.add("POST", path, h) }
func (r *Router) Delete(path string, h http.Handler) { r.add("DELETE", path, h) }
func (r *Router) ServeHTTP(w http.ResponseWriter, req *http.Request) {
	if h, ok := r.Routes[req.Method+" "+req.URL.Path]; ok {
		h.ServeHTTP(w, req)
		return
	}
	w.WriteHeader(http.StatusNotFound)
}

// Logger records log lines.
type Logger struct{ Lines []string }

func (l *Logger) Info(s string)  { l.Lines = append(l.Lines, "I:"+s) }
func (l *Logger) Error(s string) { l.Lines = append(l.Lines, "E:"+s) }

// Mailer records mail.
type Mailer struct {
	Sent  []authboss.Email
	Fault func(site string) bool
}

func (m *Mailer) Send(ctx context.Context, e authboss.Email) error {
	if m.Fault != nil && m.Fault("Mail.Send") {
		return ErrInjected
	}
	m.Sent = append(m.Sent, e)
	return nil
}

// Renderer renders a page to a structured text: for mail templates the body is the mailed
// URL (data["url"]) so that harnesses can extract tokens.
type Renderer struct {
	Fault func(site string) bool
}

func (Renderer) Load(names ...string) error { return nil }
func (rd Renderer) Render(ctx context.Context, page string, data authboss.HTMLData) ([]byte, string, error) {
	if rd.Fault != nil && rd.Fault("Render") {
		return nil, "", ErrInjected
	}
	out := page
	for _, k := range []string{"url", "recover_url"} {
		if u, ok := data[k]; ok {
			if s, ok := u.(string); ok {
				out += "|" + s
			}
		}
	}
	return []byte(out), "text/plain", nil
}

// SMSSender records text messages.
type SMSSender struct {
	Sent  []SMS // delivered messages
	Tried []SMS // every message handed to Send, delivered or not
	Fault func(site string) bool
}
type SMS struct{ Number, Text string }

func (s *SMSSender) Send(ctx context.Context, number, text string) error {
	s.Tried = append(s.Tried, SMS{number, text})
	if s.Fault != nil && s.Fault("SMS.Send") {
		return ErrInjected
	}
	s.Sent = append(s.Sent, SMS{number, text})
	return nil
}

// Hasher is an ideal salted password hash (the pluggable authboss.Hasher of the world model):
// "$vh$" + salt(8) + H(salt + password) with a fresh salt per call and H an ideal hash
// (stubs.BcMake with its own prefix). The hash is opaque to the library, which only stores it
// and hands it back.
type Hasher struct {
	Fault func(site string) bool
	Calls int
}

// MakeHash builds the stored form of password p with the given 8-byte salt.
func MakeHash(p, salt string) string { return "$vh$" + salt + verif.UFStr("ideal_hash", salt+p) }

func (h *Hasher) GenerateHash(p string) (string, error) {
	if h.Fault != nil && h.Fault("GenerateHash") {
		return "", ErrInjected
	}
	h.Calls++
	return MakeHash(p, verif.FreshString("salt!alnum", 8)), nil
}

var errMismatch = &injected{"hashedPassword is not the hash of the given password"}

func (h *Hasher) CompareHashAndPassword(hash, p string) error {
	if HashMatches(hash, p) {
		return nil
	}
	return errMismatch
}

// HashMatches is the ground-truth predicate "p is the password stored as hash".
func HashMatches(hash, p string) bool {
	if len(hash) != 4+8+20 || hash[:4] != "$vh$" {
		return false
	}
	return hash[12:] == verif.UFStr("ideal_hash", hash[4:12]+p)
}

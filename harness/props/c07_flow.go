package props

import (
	"encoding/base64"
	"encoding/json"
	"github.com/volatiletech/authboss/v3/defaults"
	"net/http"
	"verifharness/stubs"
	"verifharness/world"

	"verifharness/verif"

	"github.com/volatiletech/authboss/v3"
	"github.com/volatiletech/authboss/v3/remember"
)

func init() {
	register("C07_Middleware", C07_Middleware)
	register("C07_IssueOnlyWhenAsked", C07_IssueOnlyWhenAsked)
	register("C07_OAuth2OnlyWhenAsked", C07_OAuth2OnlyWhenAsked)
	register("C07_ShippedBodyReader", C07_ShippedBodyReader)
	register("C07_ResetRevokes", C07_ResetRevokes)
	register("C07_MiddlewareUnderFaults", C07_MiddlewareUnderFaults)
}

// C07_Middleware: remember.Middleware from an arbitrary browser state and cookie value.
func C07_Middleware() {
	verif.ReplayInInterpreter()
	f := newFlow(fullOpts())
	cookie, hasCookie := f.preC.Lookup2(authboss.CookieRemember)
	_, preHas := f.preS.Lookup2(authboss.SessionKey)
	nTokens := len(f.w.Store.Tokens)
	next := http.HandlerFunc(func(wr http.ResponseWriter, r *http.Request) { wr.WriteHeader(200) })
	_, panicked := f.serveHandler(remember.Middleware(f.w.AB)(next), "GET", "/")
	if panicked || len(f.w.Log.Lines) > 0 && false {
		return
	}
	genuine := -1
	for i, a := range f.a {
		raw, err := base64.URLEncoding.DecodeString(cookie)
		if hasCookie && err == nil && string(raw) == a.rmRaw[0] {
			genuine = i
		}
	}
	verif.Witness(genuine >= 0 && !preHas, "genuine-cookie-from-anonymous-browser")
	newCookie, hasNew := f.w.Cookies.Lookup2(authboss.CookieRemember)
	if preHas {
		verif.Assert(len(f.w.Store.Tokens) == nTokens && f.w.Cookies.WriteCalls == 0 && f.w.Session.WriteCalls == 0, "nothing happens when somebody is already logged in")
		return
	}
	if genuine >= 0 {
		a := f.a[genuine]
		uid, has := f.w.Session.Lookup2(authboss.SessionKey)
		verif.Assert(has && uid == a.pid, "a genuine cookie re-authenticates exactly the account it was issued to")
		half, hasHalf := f.w.Session.Lookup2(authboss.SessionHalfAuthKey)
		verif.Assert(hasHalf && half == "true", "the session is marked half-authenticated")
		verif.Assert(!f.w.Store.HasSerial(a.rmSerial[0]), "the presented token is consumed: the old cookie value is dead")
		verif.Assert(len(f.w.Store.Tokens) == nTokens, "exactly one fresh token replaces it")
		last := f.w.Store.Tokens[len(f.w.Store.Tokens)-1]
		verif.Assert(last.PID == a.pid, "the fresh token belongs to the same account")
		verif.Assert(hasNew, "the response sets a fresh cookie")
		if hasNew {
			raw, err := base64.URLEncoding.DecodeString(newCookie)
			verif.Assert(err == nil && rememberHash(string(raw)) == last.Hash, "the fresh cookie is the one whose hash was stored")
		}
		other := f.a[1-genuine]
		verif.Assert(f.w.Store.HasSerial(other.rmSerial[0]), "other accounts' tokens are untouched")
	} else {
		verif.Assert(!f.w.Session.Has(authboss.SessionKey), "an unknown, malformed, used or revoked cookie authenticates nobody")
		verif.Assert(len(f.w.Store.Tokens) == nTokens && f.w.Store.HasSerial(f.a[0].rmSerial[0]) && f.w.Store.HasSerial(f.a[1].rmSerial[0]), "the token table is unchanged")
		if hasCookie {
			verif.Assert(!hasNew, "the bad cookie is deleted from the client")
		}
	}
}

// C07_IssueOnlyWhenAsked: a password login issues a remember cookie iff the submitted values
// ask for it.
func C07_IssueOnlyWhenAsked() {
	verif.ReplayInInterpreter()
	o := noGuards()
	o.totp, o.sms = false, false
	f := newFlow(o)
	v := symbolicValues()
	// the application's login body may not know about "remember me" at all (UserValuer only):
	// then nobody asked
	loginOnly := verif.Choice("login-values", 2) == 1
	f.w.Body.LoginOnly = loginOnly
	if loginOnly {
		v.Remember = false
	}
	nTokens := len(f.w.Store.Tokens)
	_, panicked, _ := f.serve("POST /login", v, nil)
	if panicked || len(f.w.ErrH.Errs) > 0 {
		return
	}
	for _, a := range f.a {
		if f.issuedTo(a.pid) {
			verif.Witness(v.Remember, "login-with-remember")
			verif.Witness(!v.Remember, "login-without-remember")
			if v.Remember {
				verif.Assert(len(f.w.Store.Tokens) == nTokens+1, "a token is stored when the user asked to be remembered")
				c, has := f.w.Cookies.Lookup2(authboss.CookieRemember)
				verif.Assert(has, "a cookie is issued when the user asked to be remembered")
				if has && len(f.w.Store.Tokens) == nTokens+1 {
					last := f.w.Store.Tokens[nTokens]
					raw, err := base64.URLEncoding.DecodeString(c)
					verif.Assert(last.PID == a.pid && err == nil && rememberHash(string(raw)) == last.Hash, "the cookie is bound to the account that logged in")
				}
			} else {
				verif.Assert(len(f.w.Store.Tokens) == nTokens && f.w.Cookies.WriteCalls == 0, "no cookie and no token when the user did not ask to be remembered")
			}
		}
	}
	if verif.And(!f.validPrimary("POST /login", f.a[0], v), !f.validPrimary("POST /login", f.a[1], v)) {
		verif.Assert(len(f.w.Store.Tokens) == nTokens, "a failed login stores no token")
	}
}

// C07_ResetRevokes: a password reset kills the account's outstanding remember cookies (the
// exploration of C06_RecoverRevokes).
func C07_ResetRevokes() { C06_RecoverRevokes() }

// C07_MiddlewareUnderFaults: a genuine cookie with any one storage call failing: whatever the
// outcome, a session issued by the remember middleware is marked half-authenticated — for the
// response (session jar) and for the handler behind the middleware.
func C07_MiddlewareUnderFaults() {
	verif.ReplayInInterpreter()
	f := newFlow(fullOpts())
	a := f.a[0]
	f.w.Cookies.Set(authboss.CookieRemember, base64.URLEncoding.EncodeToString([]byte(a.rmRaw[0])))
	f.w.Session.Del(authboss.SessionKey)
	f.w.Session.Del(authboss.SessionHalfAuthKey)
	f.preS, f.preC = f.w.Session.Snapshot(), f.w.Cookies.Snapshot()
	plan := &faultPlan{max: 1}
	f.injectFaults(plan)
	next := http.HandlerFunc(func(wr http.ResponseWriter, r *http.Request) { wr.WriteHeader(200) })
	_, panicked := f.serveHandler(remember.Middleware(f.w.AB)(next), "GET", "/")
	if panicked {
		return
	}
	if len(plan.fired) > 0 {
		verif.Reach("fault-injected")
	}
	uid, has := f.w.Session.Lookup2(authboss.SessionKey)
	verif.Witness(has, "session-issued")
	if has {
		verif.Assert(uid == a.pid, "the session belongs to the account the cookie was issued to")
		verif.Assert(f.w.Session.Has(authboss.SessionHalfAuthKey), "a session issued from a remember cookie is always marked half-authenticated")
		verif.Assert(!f.w.Store.HasSerial(a.rmSerial[0]), "a session issued from a remember cookie implies the cookie's token is consumed")
	}
}

// C07_OAuth2OnlyWhenAsked: "a cookie is only issued when the user asked to be remembered", on
// the OAuth2 path: the rm parameter given at the start of the round trip (arbitrary value, or
// absent) decides: a completed OAuth2 login issues a remember token and cookie exactly when the
// parameter was "true", bound to the OAuth2 account that logged in.
func C07_OAuth2OnlyWhenAsked() {
	verif.ReplayInInterpreter()
	o := noGuards()
	o.modules = append(o.modules, "oauth2")
	o.totp, o.sms = false, false
	f := newFlow(o)
	params := map[string]string{}
	rm := verif.String("p_rm", 5)
	hasRM := verif.Choice("rm-parameter", 2) == 1
	if hasRM {
		params["rm"] = rm
	}
	if verif.Choice("other-parameter", 2) == 1 {
		params["src"] = "n"
	}
	if len(params) > 0 {
		enc, _ := json.Marshal(params)
		f.w.Session.Set(authboss.SessionOAuth2Params, string(enc))
	} else {
		f.w.Session.Del(authboss.SessionOAuth2Params)
	}
	f.w.Session.Set(authboss.SessionOAuth2State, "STATE")
	f.w.Session.Del(authboss.SessionKey)
	f.preS = f.w.Session.Snapshot()
	nTokens := len(f.w.Store.Tokens)
	_, panicked, _ := f.serve("GET /oauth2/callback/prov", symbolicValues(), map[string]string{"state": "STATE", "code": "c"})
	if panicked || len(f.w.ErrH.Errs) > 0 {
		return
	}
	uid, has := f.w.Session.Lookup2(authboss.SessionKey)
	verif.Witness(has, "oauth2-login-completed")
	if !has {
		return
	}
	asked := verif.And(hasRM, rm == "true")
	verif.Witness(asked, "asked-to-be-remembered")
	verif.Witness(!asked, "not-asked")
	if asked {
		verif.Assert(len(f.w.Store.Tokens) == nTokens+1, "a token is stored when the user asked to be remembered")
		c, hasC := f.w.Cookies.Lookup2(authboss.CookieRemember)
		verif.Assert(hasC, "a cookie is issued when the user asked to be remembered")
		if hasC && len(f.w.Store.Tokens) == nTokens+1 {
			last := f.w.Store.Tokens[nTokens]
			raw, err := base64.URLEncoding.DecodeString(c)
			verif.Assert(last.PID == uid && err == nil && rememberHash(string(raw)) == last.Hash, "the cookie is bound to the account that logged in")
		}
	} else {
		verif.Assert(len(f.w.Store.Tokens) == nTokens && f.w.Cookies.WriteCalls == 0, "no cookie and no token when the user did not ask to be remembered")
	}
}

// C07_ShippedBodyReader: "a cookie is only issued when the user asked to be remembered", with
// the shipped defaults.HTTPBodyReader deciding what "asked" means: a password login through
// form or JSON fields with the rm field absent or an arbitrary string: a remember token and
// cookie are issued exactly when the field says "true".
func C07_ShippedBodyReader() {
	verif.ReplayInInterpreter()
	jsonMode := verif.Choice("json", 2) == 1
	o := noGuards()
	o.totp, o.sms = false, false
	f := newFlowWith(o, func(w *world.World) {
		w.AB.Config.Core.BodyReader = defaults.NewHTTPBodyReader(jsonMode, false)
	})
	a := f.a[0]
	verif.Assume(a.hasPw)
	fields := map[string]string{"email": a.pid, "password": verif.String("f_password", 3)}
	rm := verif.String("f_rm", 5)
	hasRM := verif.Choice("rm-field", 2) == 1
	if hasRM {
		fields["rm"] = rm
	}
	r := world.Request("POST", "/login", "")
	if jsonMode {
		b, _ := json.Marshal(fields)
		r.Body = &stubs.StringBody{S: string(b)}
		r.Header.Set("Content-Type", "application/json")
	} else {
		for k, v := range fields {
			r.Form[k] = []string{v}
		}
	}
	f.w.Session.Del(authboss.SessionKey)
	f.preS = f.w.Session.Snapshot()
	nTokens := len(f.w.Store.Tokens)
	panicked, _ := world.Try(func() { f.w.Serve(f.w.Route("POST /login"), r) })
	if panicked || len(f.w.ErrH.Errs) > 0 {
		return
	}
	if !f.issuedTo(a.pid) {
		verif.Assert(len(f.w.Store.Tokens) == nTokens, "a failed login stores no token")
		return
	}
	verif.Assert(fields["password"] == a.pw, "the login succeeded with the account's password")
	asked := verif.And(hasRM, rm == "true")
	verif.Witness(asked, "asked-to-be-remembered")
	verif.Witness(verif.And(hasRM, rm != "true"), "rm-field-with-another-value")
	if asked {
		verif.Assert(len(f.w.Store.Tokens) == nTokens+1 && f.w.Cookies.Has(authboss.CookieRemember), "a token and a cookie are issued when the user asked to be remembered")
	} else {
		verif.Assert(len(f.w.Store.Tokens) == nTokens && f.w.Cookies.WriteCalls == 0, "no cookie and no token when the user did not ask to be remembered")
	}
}

package props

import (
	"encoding/base64"
	"strings"
	"time"

	"verifharness/verif"
	"verifharness/world"

	"github.com/volatiletech/authboss/v3"
)

func init() {
	register("C05_Confirm", C05_Confirm)
	register("C05_RecoverEnd", C05_RecoverEnd)
	register("C05_RecoverReissue", C05_RecoverReissue)
}

func tokenOpts() flowOpts {
	// no lock/confirm/2FA interception of the recover-and-login step; remember loaded
	return flowOpts{modules: []string{"auth", "confirm", "logout", "recover", "register", "remember"}, write500: true}
}

// tokenInv: Inv A3 — outstanding tokens of different accounts / purposes differ in both halves
// (64 fresh random bytes each).
func (f *flow) tokenInv() {
	toks := []string{f.a[0].confirmTok, f.a[1].confirmTok, f.a[0].recoverTok, f.a[1].recoverTok}
	for i := range toks {
		for j := i + 1; j < len(toks); j++ {
			verif.Assume(toks[i][:32] != toks[j][:32])
			verif.Assume(toks[i][32:] != toks[j][32:])
		}
	}
}

// decodes reports whether submitted decodes (base64url) to exactly raw.
func decodes(submitted, raw string) bool {
	b, err := base64.URLEncoding.DecodeString(submitted)
	if err != nil {
		return false
	}
	return string(b) == raw
}

// C05_Confirm: GET /confirm with an arbitrary token string.
func C05_Confirm() {
	verif.ReplayInInterpreter()
	f := newFlow(tokenOpts())
	f.tokenInv()
	v := symbolicValues()
	v.Token = verif.String("v_token", 90)
	preUID, preHas := f.preS.Lookup2(authboss.SessionKey)
	_, panicked, _ := f.serve("GET /confirm", v, nil)
	if panicked {
		return
	}
	postUID, postHas := f.w.Session.Lookup2(authboss.SessionKey)
	verif.Assert(verif.And(postHas == preHas, verif.Implies(postHas, postUID == preUID)), "confirmation logs nobody in")
	anyAccepted := false
	for _, a := range f.a {
		accept := verif.And(verif.And(a.hasConfirmTok, !v.Invalid), decodes(v.Token, a.confirmTok))
		anyAccepted = verif.Or(anyAccepted, accept)
		post := f.w.Store.Get(a.pid)
		verif.Witness(accept, "genuine-confirm-token")
		if accept {
			verif.Assert(post.Confirmed, "the genuine token confirms its account")
			verif.Assert(post.ConfirmSelector == "" && post.ConfirmVerifier == "", "an accepted confirm token is spent")
			post.Confirmed, post.ConfirmSelector, post.ConfirmVerifier = a.u.Confirmed, a.u.ConfirmSelector, a.u.ConfirmVerifier
			verif.Assert(post.Same(a.u), "confirmation changes nothing else")
			// second use of the same link
			_, panicked, _ = f.serve("GET /confirm", v, nil)
			post2 := f.w.Store.Get(a.pid)
			verif.Assert(!panicked && post2.ConfirmSelector == "" && post2.Confirmed, "a used confirm link does nothing the second time")
		} else {
			verif.Assert(post.Same(a.u), "any other value changes nothing: the account and its outstanding token stay as they were")
		}
	}
}

// C05_RecoverEnd: POST /recover/end with an arbitrary token string and password.
func C05_RecoverEnd() {
	verif.ReplayInInterpreter()
	o := tokenOpts()
	o.recoverLogin = verif.Choice("recoverLogin", 2) == 1
	f := newFlow(o)
	f.tokenInv()
	v := symbolicValues()
	v.Token = verif.String("v_token", 90)
	tb := time.Now().UTC()
	_, panicked, _ := f.serve("POST /recover/end", v, nil)
	ta := time.Now().UTC()
	if panicked {
		return
	}
	for _, a := range f.a {
		genuine := verif.And(verif.And(a.hasRecoverTok, !v.Invalid), decodes(v.Token, a.recoverTok))
		inTime := ta.Before(a.u.RecoverTokenExpiry) // strictly inside the validity period (the expiry instant itself is left open by the statement)
		tooLate := tb.After(a.u.RecoverTokenExpiry)
		post := f.w.Store.Get(a.pid)
		verif.Witness(verif.And(genuine, inTime), "genuine-recover-token-in-time")
		verif.Witness(verif.And(genuine, tooLate), "genuine-recover-token-expired")
		if verif.And(genuine, inTime) {
			verif.Assert(world.HashMatches(post.Password, v.Password), "the genuine token sets the submitted password")
			verif.Assert(post.RecoverSelector == "" && post.RecoverVerifier == "", "an accepted recovery token is spent")
			_, panicked, _ = f.serve("POST /recover/end", v, nil)
			post2 := f.w.Store.Get(a.pid)
			verif.Assert(!panicked && post2.Password == post.Password, "a used recovery link does nothing the second time")
		}
		if verif.Or(!genuine, tooLate) {
			verif.Assert(post.Same(a.u), "any other, expired or mismatched value changes nothing: no password change, the outstanding token stays usable")
			verif.Assert(!f.issuedTo(a.pid), "a rejected recovery token logs nobody in")
		}
	}
}

// C05_RecoverReissue: a newer recovery request replaces the outstanding token.
func C05_RecoverReissue() {
	verif.ReplayInInterpreter()
	f := newFlow(tokenOpts())
	f.tokenInv()
	a := f.a[0]
	verif.Assume(a.hasRecoverTok)
	v := symbolicValues()
	verif.Assume(verif.And(v.PID == a.pid, !v.Invalid))
	tb := time.Now().UTC()
	_, panicked, _ := f.serve("POST /recover", v, nil)
	ta := time.Now().UTC()
	if panicked || len(f.w.ErrH.Errs) > 0 {
		return
	}
	verif.Assert(len(f.w.Mail.Sent) == 1, "a recovery request mails exactly one message")
	if len(f.w.Mail.Sent) != 1 {
		return
	}
	m := f.w.Mail.Sent[0]
	verif.Assert(len(m.To) == 1 && m.To[0] == a.u.Email, "the recovery mail goes to the account's address only")
	post := f.w.Store.Get(a.pid)
	verif.Assert(post.RecoverSelector != "", "a new selector is stored")
	d := f.w.AB.Config.Modules.RecoverTokenDuration
	verif.Assert(!post.RecoverTokenExpiry.Before(tb.Add(d)) && !post.RecoverTokenExpiry.After(ta.Add(d)), "the new token is valid for the configured period from the request that issued it")
	verif.Assume(post.RecoverSelector != a.u.RecoverSelector) // fresh 64 random bytes differ from the outstanding token (negligible collision probability, stated)
	verif.Assert(strings.Contains(m.TextBody, "/recover/end?token="), "the mail carries the token link")
	// the superseded token
	old := &world.Values{Token: base64.URLEncoding.EncodeToString([]byte(a.recoverTok)), Password: "new"}
	pw := post.Password
	_, panicked, _ = f.serve("POST /recover/end", old, nil)
	verif.Assert(!panicked, "no panic")
	verif.Assert(f.w.Store.Get(a.pid).Password == pw, "a superseded recovery token no longer changes the password")
}

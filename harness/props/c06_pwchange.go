package props

import (
	"context"
	"strings"
	"time"

	"verifharness/verif"
	"verifharness/world"

	"github.com/volatiletech/authboss/v3"
)

func init() {
	register("C06_RecoverRevokes", C06_RecoverRevokes)
	register("C06_UpdatePassword", C06_UpdatePassword)
	register("C06_HasherExact", C06_HasherExact)
}

// C06_RecoverRevokes: a successful POST /recover/end (remember loaded or not, login after
// recovery on or off), from any browser session.
func C06_RecoverRevokes() {
	verif.ReplayInInterpreter()
	o := tokenOpts()
	o.recoverLogin = verif.Choice("recoverLogin", 2) == 1
	withRemember := verif.Choice("remember", 2) == 1
	if !withRemember {
		o.modules = []string{"auth", "confirm", "logout", "recover", "register"}
	}
	f := newFlow(o)
	f.tokenInv()
	a, b := f.a[0], f.a[1]
	v := symbolicValues()
	v.Token = verif.String("v_token", 90)
	verif.Assume(verif.And(verif.And(a.hasRecoverTok, !v.Invalid), decodes(v.Token, a.recoverTok)))
	_, panicked, _ := f.serve("POST /recover/end", v, nil)
	if panicked || len(f.w.ErrH.Errs) > 0 {
		return
	}
	if !time.Now().UTC().Before(a.u.RecoverTokenExpiry) {
		return // not (surely) strictly inside the validity period: C05's subject
	}
	verif.Reach("recovery-succeeded")
	post := f.w.Store.Get(a.pid)
	verif.Assert(world.HashMatches(post.Password, v.Password), "the new password authenticates")
	verif.Assert(verif.Implies(verif.And(a.hasPw, a.pw != v.Password), !world.HashMatches(post.Password, a.pw)), "the previous password no longer authenticates")
	verif.Assert(post.Password != v.Password && strings.HasPrefix(post.Password, "$vh$"), "the stored value is a salted hash, not the password")
	verif.Assert(post.RecoverSelector == "" && post.RecoverVerifier == "", "the recovery token that authorised the change is spent")
	other := f.w.Store.Get(b.pid)
	verif.Assert(other.Same(b.u), "no other account is affected")
	if withRemember {
		verif.Assert(!f.w.Store.HasSerial(a.rmSerial[0]), "every remember token issued to the account before the change is revoked")
		verif.Assert(f.w.Store.HasSerial(b.rmSerial[0]), "other accounts' remember tokens are untouched")
		verif.Assert(!f.w.Cookies.Has(authboss.CookieRemember), "the browser's remember cookie is deleted")
	}
}

// C06_UpdatePassword: the programmatic password update.
func C06_UpdatePassword() {
	verif.ReplayInInterpreter()
	f := newFlow(tokenOpts())
	a, b := f.a[0], f.a[1]
	newPw := verif.String("newPw", 4)
	u, err := f.w.Store.Load(context.Background(), a.pid)
	verif.Assert(err == nil, "load")
	err = f.w.AB.UpdatePassword(context.Background(), u.(authboss.AuthableUser), newPw)
	verif.Assert(err == nil, "UpdatePassword succeeds")
	post := f.w.Store.Get(a.pid)
	verif.Assert(world.HashMatches(post.Password, newPw), "the new password authenticates")
	verif.Assert(verif.Implies(verif.And(a.hasPw, a.pw != newPw), !world.HashMatches(post.Password, a.pw)), "the previous password no longer authenticates")
	verif.Assert(post.Password != newPw, "the stored value is not the password")
	verif.Assert(!f.w.Store.HasSerial(a.rmSerial[0]), "remember tokens of the account are revoked")
	verif.Assert(f.w.Store.HasSerial(b.rmSerial[0]), "other accounts' remember tokens are untouched")
	verif.Assert(f.w.Store.Get(b.pid).Same(b.u), "no other account is affected")
}

// C06_HasherExact: the shipped hasher (authboss.NewBCryptHasher, bcrypt modelled as an ideal
// salted hash over the 72 bytes its key schedule reads): whenever it produces a hash for a
// password, that hash verifies exactly that password - in particular a previous password that
// differs from the new one never verifies against the new hash. Password lengths 0..3 and 71..74:
// bcrypt's 72-byte boundary is inside the bound.
func C06_HasherExact() {
	verif.ReplayInInterpreter() // the bcrypt model is the executor's (natively: real bcrypt, cost 4, same contract)
	h := authboss.NewBCryptHasher(4)
	// lengths 0..3 and 71..74 (around bcrypt's 72-byte boundary), contents arbitrary
	pick := func(label string) string {
		switch verif.Choice(label+"_len", 5) {
		case 0:
			return verif.String(label, 3)
		case 1:
			return verif.StringN(label+"71", 71)
		case 2:
			return verif.StringN(label+"72", 72)
		case 3:
			return verif.StringN(label+"73", 73)
		}
		return verif.StringN(label+"74", 74)
	}
	pw := pick("pw")
	hash, err := h.GenerateHash(pw)
	verif.Witness(err == nil, "hash-generated")
	verif.Witness(err != nil, "password-refused")
	if err != nil {
		verif.Assert(hash == "", "a refused password produces no hash")
		return
	}
	verif.Assert(!verif.Exposes(hash, pw), "the hash does not contain the password")
	verif.Assert(h.CompareHashAndPassword(hash, pw) == nil, "the hash verifies the password it was generated from")
	other := pick("other")
	// "other": any different password the hasher accepts as a password (a previous or a later
	// password of the account). Longer inputs share bcrypt's 72-byte key with their prefix and
	// are no passwords of any account.
	if _, err2 := h.GenerateHash(other); err2 == nil && other != pw {
		verif.Assert(h.CompareHashAndPassword(hash, other) != nil, "the hash verifies no other password")
	}
}

package props

import (
	"context"
	"net/http"
	"net/url"
	"os"

	"verifharness/verif"
	"verifharness/world"

	"github.com/volatiletech/authboss/v3"
	"github.com/volatiletech/authboss/v3/defaults"
	"github.com/volatiletech/authboss/v3/remember"
)

func init() {
	register("C20_NoSharedWrites", C20_NoSharedWrites)
	register("C20_Middlewares", C20_Middlewares)
	register("C20_SMTPMailer", C20_SMTPMailer)
	register("C20_BodyReader", C20_BodyReader)
	register("C20_MailGoroutines", C20_MailGoroutines)
	register("C20_LogMailerAtomic", C20_LogMailerAtomic)
	register("C20_ResponderRedirector", C20_ResponderRedirector)
}

// recordingRouter delegates to the shipped defaults.Router and remembers the route list.
type recordingRouter struct {
	*defaults.Router
	order []string
}

func (r *recordingRouter) Get(p string, h http.Handler) {
	r.order = append(r.order, "GET "+p)
	r.Router.Get(p, h)
}
func (r *recordingRouter) Post(p string, h http.Handler) {
	r.order = append(r.order, "POST "+p)
	r.Router.Post(p, h)
}
func (r *recordingRouter) Delete(p string, h http.Handler) {
	r.order = append(r.order, "DELETE "+p)
	r.Router.Delete(p, h)
}

// defaultsFlow: the instance wired with the shipped default router, error handler, responder,
// redirector, body reader, logger and log mailer (defaults.SetCore) over the JSON renderer; the
// storage layer and the client-state stores are the world model (user-supplied components,
// goroutine-safe by the README's contract).
func defaultsFlow(o flowOpts) (*flow, *recordingRouter) {
	rr := &recordingRouter{}
	f := newFlowWith(o, func(w *world.World) {
		c := &w.AB.Config
		c.Core.ViewRenderer = defaults.JSONRenderer{}
		c.Core.MailRenderer = defaults.JSONRenderer{}
		defaults.SetCore(c, false, false)
		// request bodies: the typed model reader keeps the number of paths manageable; the
		// shipped body reader is exercised on its own by C20_BodyReader
		c.Core.BodyReader = w.Body
		// likewise the redirector: redirect targets built from uninterpreted encodings make the
		// transcribed http.Redirect explode; defaults.Redirector / Responder are exercised on
		// their own by C20_ResponderRedirector
		c.Core.Redirector = w.Redirector
		rr.Router = c.Core.Router.(*defaults.Router)
		c.Core.Router = rr
		c.Modules.MailNoGoroutine = true
	})
	return f, rr
}

// symbolicForm: an arbitrary form body over the fields the default body reader knows.
func symbolicForm() url.Values {
	form := url.Values{}
	for _, k := range []string{"email", "password", "confirm_password", "token", "cnf", "code", "recovery_code", "phone_number", "rm", "redir"} {
		form[k] = []string{verif.String("f_"+k, 4)}
	}
	return form
}

// C20_NoSharedWrites: every route of the default-wired instance, served from an arbitrary
// state with an arbitrary form: library code writes no location that outlives the request.
// With no synchronisation in library code (census), that is equivalent to the absence of data
// races between concurrent requests (DESIGN.md 4.20).
func C20_NoSharedWrites() {
	verif.ReplayInInterpreter()
	verif.SyncCensus()
	o := fullOpts()
	o.recoverLogin = true
	f, rr := defaultsFlow(o)
	var routes []string
	for _, r := range rr.order {
		if r != "GET /2fa/totp/qr" {
			routes = append(routes, r)
		}
	}
	route := verif.Param("route")
	if route == "" {
		route = routes[verif.Choice("route", len(routes))]
	}
	verif.MarkShared(f.w.AB)
	method, path := route[:indexByte(route, ' ')], route[indexByte(route, ' ')+1:]
	r := world.Request(method, path, "")
	r.Form["state"] = []string{verif.String("q_state", 6)}
	r.Form["code"] = []string{verif.String("q_code", 2)}
	f.w.Body.Next = symbolicValues()
	panicked, _ := world.Try(func() { f.w.Serve(f.w.AB.Config.Core.Router, r) })
	if panicked {
		return // C18's subject
	}
	verif.Reach("route-served")
	n := verif.SharedWrites("no data race between concurrent requests")
	verif.Assert(n == 0, "library code writes no location that outlives the request")
}

func indexByte(s string, c byte) int {
	for i := 0; i < len(s); i++ {
		if s[i] == c {
			return i
		}
	}
	return -1
}

// C20_Middlewares: the exported middlewares (access, remember, client state) likewise.
func C20_Middlewares() {
	verif.ReplayInInterpreter()
	verif.SyncCensus()
	f, _ := defaultsFlow(fullOpts())
	next := http.HandlerFunc(func(wr http.ResponseWriter, r *http.Request) { wr.WriteHeader(200) })
	var h http.Handler
	switch verif.Choice("middleware", 4) {
	case 0:
		h = authboss.MountedMiddleware2(f.w.AB, true, authboss.RequireFullAuth|authboss.Require2FA, authboss.RespondRedirect)(next)
	case 1:
		h = authboss.Middleware2(f.w.AB, authboss.RequireNone, authboss.RespondNotFound)(next)
	case 2:
		h = remember.Middleware(f.w.AB)(next)
	default:
		h = authboss.ModuleListMiddleware(f.w.AB)(next)
	}
	verif.MarkShared(f.w.AB, h)
	r := world.Request("GET", "/private/x", "a=b") // the path and query contents do not influence which locations are written
	panicked, _ := world.Try(func() { f.w.Serve(h, r) })
	if panicked {
		return
	}
	n := verif.SharedWrites("no data race between concurrent requests")
	verif.Assert(n == 0, "library code writes no location that outlives the request")
}

// C20_SMTPMailer: the shipped SMTP mailer used by concurrent mail goroutines.
func C20_SMTPMailer() {
	verif.ReplayInInterpreter()
	m := defaults.NewSMTPMailer("smtp.example:25", nil)
	verif.MarkShared(m)
	err := m.Send(nil, authboss.Email{To: []string{"a@x"}, From: "b@y", Subject: "s", TextBody: verif.String("body", 4) + "x"})
	verif.Assert(err == nil, "Send succeeds")
	n := verif.SharedWrites("no data race between concurrent mail goroutines")
	verif.Assert(n == 0, "the mailer writes no state shared between Send calls")
	_ = os.Stdout
}

// C20_BodyReader: the shipped defaults.HTTPBodyReader reading any page from an arbitrary form.
func C20_BodyReader() {
	verif.ReplayInInterpreter()
	br := defaults.NewHTTPBodyReader(false, false)
	verif.MarkShared(br)
	pages := []string{"login", "register", "confirm", "recover_start", "recover_middle", "recover_end", "twofactor_verify_end", "totp2fa_validate", "sms2fa_setup"}
	page := pages[verif.Choice("page", len(pages))]
	r := world.Request("POST", "/x", "")
	r.Form = symbolicForm()
	v, err := br.Read(page, r)
	verif.Assert(err == nil, "Read succeeds")
	if err == nil {
		v.Validate()
	}
	n := verif.SharedWrites("no data race between concurrent requests")
	verif.Assert(n == 0, "the body reader writes no state shared between requests")
}

// C20_ResponderRedirector: the shipped defaults.Responder and defaults.Redirector (form and JSON).
func C20_ResponderRedirector() {
	verif.ReplayInInterpreter()
	w := world.New()
	rd := defaults.JSONRenderer{}
	resp := defaults.NewResponder(rd)
	red := defaults.NewRedirector(rd, authboss.FormValueRedirect)
	verif.MarkShared(w.AB, resp, red)
	api := verif.Choice("api", 2) == 1
	r := world.Request("POST", "/auth/login", "")
	if api {
		r.Header.Set("Content-Type", "application/json")
	}
	r.Form["redir"] = []string{verif.Chars("redir", 2)}
	w.Serve(http.HandlerFunc(func(wr http.ResponseWriter, rq *http.Request) {
		if verif.Choice("which", 2) == 0 {
			resp.Respond(wr, rq, 200, "login", authboss.HTMLData{"error": verif.String("msg", 3)})
		} else {
			red.Redirect(wr, rq, authboss.RedirectOptions{Code: 307, RedirectPath: "/ok", FollowRedirParam: true, Success: "done"})
		}
	}), r)
	n := verif.SharedWrites("no data race between concurrent requests")
	verif.Assert(n == 0, "responder and redirector write no state shared between requests")
}

// C20_MailGoroutines: the flows that start a mail goroutine (recover, register+confirm, 2FA
// e-mail verification), behind a data-injecting middleware (ModuleListMiddleware), with the
// goroutines enabled: the goroutine writes nothing it shares with the request goroutine.
func C20_MailGoroutines() {
	verif.ReplayInInterpreter()
	verif.SyncCensus()
	o := fullOpts()
	o.emailAuth = true
	rr := &recordingRouter{}
	f := newFlowWith(o, func(w *world.World) {
		c := &w.AB.Config
		c.Core.ViewRenderer = defaults.JSONRenderer{}
		c.Core.MailRenderer = defaults.JSONRenderer{}
		defaults.SetCore(c, false, false)
		c.Core.BodyReader = w.Body
		c.Core.Redirector = w.Redirector
		rr.Router = c.Core.Router.(*defaults.Router)
		c.Core.Router = rr
	})
	f.w.AB.Config.Modules.MailNoGoroutine = false
	routes := []string{"POST /recover", "POST /register", "POST /2fa/totp/email/verify"}
	route := routes[verif.Choice("route", len(routes))]
	if route == "POST /2fa/totp/email/verify" {
		f.w.Session.Set(authboss.SessionKey, pid0)
		f.w.Session.Del(authboss.SessionHalfAuthKey)
	}
	h := authboss.ModuleListMiddleware(f.w.AB)(f.w.AB.Config.Core.Router)
	verif.MarkShared(f.w.AB, h)
	r := world.Request("POST", route[len("POST "):], "")
	f.w.Body.Next = symbolicValues()
	nMail := len(f.w.Mail.Sent)
	panicked, _ := world.Try(func() { f.w.Serve(h, r) })
	if panicked {
		return
	}
	_ = nMail
	n := verif.SharedWrites("no data race between a request and the mail goroutine it starts")
	verif.Assert(n == 0, "mail goroutines write nothing they share with the request")
}

// countingWriter counts Write calls (each one is atomic on an *os.File; two are not).
type countingWriter struct{ writes int }

func (c *countingWriter) Write(p []byte) (int, error) { c.writes++; return len(p), nil }

// C20_LogMailerAtomic: "each client observes exactly the responses ... it would have observed
// had the other clients' requests not been running", for the shipped log mailer, whose writer
// (os.Stdout by default) is shared by all mail goroutines and the logger: one mail is handed to
// the writer in exactly one Write, whatever its bodies contain (in particular '\r' and '\n'),
// so that concurrent mails cannot interleave.
func C20_LogMailerAtomic() {
	cw := &countingWriter{}
	m := defaults.NewLogMailer(cw)
	mail := authboss.Email{
		To: []string{"a@x"}, From: "f@x", Subject: verif.String("subject", 3),
		TextBody: verif.Chars("text", verif.Choice("textLen", 4)), HTMLBody: verif.Chars("html", verif.Choice("htmlLen", 3)),
	}
	err := m.Send(context.Background(), mail)
	verif.Assert(err == nil, "the log mailer reports no error")
	verif.Assert(cw.writes == 1, "one mail is one Write on the shared writer")
}

package props

import (
	"fmt"
	"os"
	"testing"

	"verifharness/verif"
)

// TestReplay runs one harness entry natively (real /repo code, real standard library) on the
// solver model named by $VERIF_MODEL and prints which assertions failed.
func TestReplay(t *testing.T) {
	name := os.Getenv("VERIF_ENTRY")
	fn := Entries[name]
	if fn == nil {
		t.Skipf("no entry %q", name)
	}
	verif.Reset()
	func() {
		defer func() {
			if r := recover(); r != nil {
				if _, ok := r.(verif.AssumeFailed); ok {
					fmt.Println("REPLAY-UNASSUMED")
					return
				}
				fmt.Printf("REPLAY-PANIC: %v\n", r)
			}
		}()
		fn()
	}()
	for _, l := range verif.Failed {
		fmt.Println("REPLAY-FAILED-ASSERT: " + l)
	}
	for _, l := range verif.Witnessed {
		fmt.Println("REPLAY-WITNESS: " + l)
	}
}

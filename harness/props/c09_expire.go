package props

import (
	"net/http"
	"time"

	"verifharness/verif"
	"verifharness/world"

	"github.com/volatiletech/authboss/v3"
	"github.com/volatiletech/authboss/v3/expire"
)

func init() {
	register("C09_Middleware", C09_Middleware)
	register("C09_LoginStartsClock", C09_LoginStartsClock)
	register("C09_TwoRequests", C09_TwoRequests)
}

type seen struct {
	val string
	ok  bool
}

// C09_Middleware: one request through expire.Middleware from an arbitrary session.
func C09_Middleware() {
	verif.ReplayInInterpreter() // expire reads the wall clock through an unexported hook
	w := world.New()
	expireAfter := time.Duration(verif.Int("ExpireAfter", 1, maxDur))
	w.AB.Config.Modules.ExpireAfter = expireAfter
	wl := verif.Choice("whitelist", 4)
	white := map[string]bool{"app_w": wl >= 1}
	if wl == 3 {
		// an application may whitelist marks of the library itself ("all whitelists"): they are
		// kept like any other whitelisted value (uid and last_action always go)
		w.AB.Config.Storage.SessionStateWhitelistKeys = []string{"app_w", authboss.SessionHalfAuthKey, authboss.Session2FA}
		white[authboss.SessionHalfAuthKey], white[authboss.Session2FA] = true, true
	} else if wl == 1 {
		w.AB.Config.Storage.SessionStateWhitelistKeys = []string{"app_w"}
	} else if wl == 2 {
		// application keys that embed the names of library keys must not un-hide those
		w.AB.Config.Storage.SessionStateWhitelistKeys = []string{"app_w", "device_uid", "seen_twofactor_prompt", "not_halfauth_banner", "app_x2"}
	}
	// arbitrary session: every key either absent or holding an arbitrary value
	keys := []string{authboss.SessionKey, authboss.SessionHalfAuthKey, authboss.Session2FA, "app_w", "app_x"}
	pre := map[string]seen{}
	for _, k := range keys {
		v := verif.String("S_"+k, 4)
		p := verif.Bool("has_" + k)
		w.Session.SetP(k, v, p)
		pre[k] = seen{verif.Ite(p, v, ""), p}
	}
	verif.Assume(verif.Implies(pre[authboss.SessionKey].ok, pre[authboss.SessionKey].val != "")) // Inv A2: a present uid is non-empty
	stamp := verif.Time("stamp")
	hasStamp := verif.Bool("has_last_action")
	w.Session.SetP(authboss.SessionLastAction, stamp.UTC().Format(time.RFC3339), hasStamp)
	stampSec := stamp.Unix()

	var obs = map[string]seen{}
	var uidSeen string
	ran := false
	next := http.HandlerFunc(func(wr http.ResponseWriter, r *http.Request) {
		ran = true
		uidSeen, _ = w.AB.CurrentUserID(r)
		for _, k := range keys {
			v, ok := authboss.GetSession(r, k)
			obs[k] = seen{v, ok}
		}
		wr.WriteHeader(200)
	})
	// an upstream middleware (logging, auditing) may already have resolved the user id
	upstream := verif.Choice("upstream-loads-user-id", 2) == 1
	h := expire.Middleware(w.AB)(next)
	chain := http.HandlerFunc(func(wr http.ResponseWriter, r *http.Request) {
		if upstream {
			w.AB.LoadCurrentUserID(&r)
		}
		h.ServeHTTP(wr, r)
	})
	tb := time.Now().UTC()
	w.Serve(chain, world.Request("GET", "/x", ""))
	ta := time.Now().UTC()
	verif.Assert(ran, "the wrapped handler always runs")

	loggedIn := pre[authboss.SessionKey].ok
	deadline := time.Unix(stampSec, 0).Add(expireAfter)
	expired := verif.And(verif.And(loggedIn, hasStamp), tb.After(deadline)) // every clock reading is after the deadline ("more than ExpireAfter"; the exact instant is left open by the statement)
	fresh := verif.And(loggedIn, verif.Or(!hasStamp, ta.Before(deadline)))  // every clock reading is before the deadline
	verif.Witness(expired, "expired-session")
	verif.Witness(verif.And(fresh, hasStamp), "fresh-session")
	verif.Witness(verif.And(fresh, !hasStamp), "session-without-stamp")
	verif.Witness(!loggedIn, "anonymous")

	if expired {
		verif.Assert(uidSeen == "", "expired: downstream sees no current user")
		for _, k := range keys {
			if white[k] {
				verif.Assert(obs[k] == pre[k], "expired: whitelisted value passes through")
				_, has := w.Session.Lookup(k)
				verif.Assert(has == pre[k].ok, "expired: whitelisted value kept in the session")
			} else {
				verif.Assert(!obs[k].ok && obs[k].val == "", "expired: non-whitelisted value hidden from downstream")
				verif.Assert(!w.Session.Has(k), "expired: non-whitelisted value deleted by the response")
			}
		}
		verif.Assert(!w.Session.Has(authboss.SessionLastAction), "expired: last_action deleted")
	}
	if fresh {
		verif.Assert(uidSeen == pre[authboss.SessionKey].val, "fresh: downstream sees the session's user")
		for _, k := range keys {
			verif.Assert(obs[k] == pre[k], "fresh: downstream sees the session unchanged")
			v, has := w.Session.Lookup(k)
			verif.Assert(has == pre[k].ok && (!has || v == pre[k].val), "fresh: session values unchanged by the response")
		}
		la, has := w.Session.Lookup(authboss.SessionLastAction)
		verif.Assert(has, "fresh: the response stamps last_action (deadline pushed forward / idle clock started)")
		if has {
			nt, err := time.Parse(time.RFC3339, la)
			verif.Assert(err == nil, "fresh: stamp is RFC3339")
			if err == nil {
				verif.Assert(nt.Unix() >= tb.Unix() && nt.Unix() <= ta.Unix(), "fresh: stamp is the request's time")
			}
		}
	}
	if !loggedIn {
		verif.Assert(w.Session.WriteCalls == 0, "anonymous: the middleware changes nothing")
		for _, k := range keys {
			verif.Assert(obs[k] == pre[k], "anonymous: downstream sees the session unchanged")
		}
	}
}

// C09_LoginStartsClock: the hook installed by expire.Setup stamps the session on EventAuth.
func C09_LoginStartsClock() {
	verif.ReplayInInterpreter()
	w := world.New()
	if err := expire.Setup(w.AB); err != nil {
		panic(err)
	}
	tb := time.Now().UTC()
	w.Serve(http.HandlerFunc(func(wr http.ResponseWriter, r *http.Request) {
		_, err := w.AB.Events.FireAfter(authboss.EventAuth, wr, r)
		verif.Assert(err == nil, "hook returns no error")
		wr.WriteHeader(200)
	}), world.Request("POST", "/login", ""))
	ta := time.Now().UTC()
	la, has := w.Session.Lookup(authboss.SessionLastAction)
	verif.Assert(has, "login stamps last_action")
	if has {
		nt, err := time.Parse(time.RFC3339, la)
		verif.Assert(err == nil, "stamp is RFC3339")
		if err == nil {
			verif.Assert(nt.Unix() >= tb.Unix() && nt.Unix() <= ta.Unix(), "stamp is the login time")
		}
	}
}

// C09_TwoRequests: "a session survives a sequence iff every gap is below the threshold": two
// requests through the middleware from a logged-in session at arbitrary non-decreasing
// instants. The second request is judged against the stamp the library itself wrote during the
// first one (format / parse round trip of its own stamp included).
func C09_TwoRequests() {
	verif.ReplayInInterpreter()
	w := world.New()
	expireAfter := time.Duration(verif.Int("ExpireAfter", 1, maxDur))
	w.AB.Config.Modules.ExpireAfter = expireAfter
	uid := verif.String("S_uid", 4)
	verif.Assume(uid != "")
	w.Session.Set(authboss.SessionKey, uid)
	hasStamp := verif.Bool("has_last_action")
	w.Session.SetP(authboss.SessionLastAction, verif.Time("stamp").UTC().Format(time.RFC3339), hasStamp)
	var uidSeen string
	next := http.HandlerFunc(func(wr http.ResponseWriter, r *http.Request) {
		uidSeen, _ = w.AB.CurrentUserID(r)
		wr.WriteHeader(200)
	})
	h := expire.Middleware(w.AB)(next)
	w.Serve(h, world.Request("GET", "/one", ""))
	if uidSeen == "" {
		// expired at the first request: logged out for good
		verif.Reach("first-request-expired")
		verif.Assert(!w.Session.Has(authboss.SessionKey), "an expired session is logged out")
		w.Serve(h, world.Request("GET", "/two", ""))
		verif.Assert(uidSeen == "", "once expired, the next request is anonymous too")
		return
	}
	la, has := w.Session.Lookup(authboss.SessionLastAction)
	verif.Assert(has, "a served request stamps the session")
	if !has {
		return
	}
	stamp, err := time.Parse(time.RFC3339, la)
	verif.Assert(err == nil, "the stamp is RFC3339")
	if err != nil {
		return
	}
	deadline := stamp.Add(expireAfter)
	tb := time.Now().UTC()
	w.Serve(h, world.Request("GET", "/two", ""))
	ta := time.Now().UTC()
	expired := tb.After(deadline) // "more than ExpireAfter": the exact deadline instant is left open by the statement
	fresh := ta.Before(deadline)
	verif.Witness(expired, "second-request-after-the-deadline")
	verif.Witness(fresh, "second-request-before-the-deadline")
	if expired {
		verif.Assert(uidSeen == "", "a gap of ExpireAfter or more ends the session")
		verif.Assert(!w.Session.Has(authboss.SessionKey) && !w.Session.Has(authboss.SessionLastAction), "an expired session is logged out")
	}
	if fresh {
		verif.Assert(uidSeen == uid, "a gap below ExpireAfter keeps the session")
		la2, has2 := w.Session.Lookup(authboss.SessionLastAction)
		verif.Assert(has2, "the deadline is pushed forward")
		if has2 {
			s2, err2 := time.Parse(time.RFC3339, la2)
			verif.Assert(err2 == nil && s2.Unix() >= tb.Unix() && s2.Unix() <= ta.Unix(), "the new stamp is the second request's time")
		}
	}
}

package props

import (
	"time"

	"verifharness/verif"
	"verifharness/world"

	"github.com/volatiletech/authboss/v3"
	"github.com/volatiletech/authboss/v3/defaults"
)

func init() {
	register("C16_LockedPasswordOracle", C16_LockedPasswordOracle)
	register("C16_RecoverExistence", C16_RecoverExistence)
	register("C16_LoginExistence", C16_LoginExistence)
}

// twin builds two identical worlds (same symbolic pre-state) using the real
// defaults.Responder / defaults.Redirector over a data-recording renderer.
type twin struct {
	f     [2]*flow
	rd    [2]*dataRenderer
	redir string
}

func newTwin(o flowOpts, api bool) *twin {
	t := &twin{}
	if verif.Choice("redirParam", 2) == 1 {
		t.redir = "/back"
	}
	for i := 0; i < 2; i++ {
		if i == 1 {
			verif.ResetLabels()
		}
		rd := &dataRenderer{}
		t.rd[i] = rd
		t.f[i] = newFlowWith(o, func(w *world.World) {
			w.AB.Config.Core.ViewRenderer = rd
			w.AB.Config.Core.Responder = defaults.NewResponder(rd)
			w.AB.Config.Core.Redirector = defaults.NewRedirector(rd, authboss.FormValueRedirect)
		})
	}
	return t
}

type observation struct {
	code     int
	location string
	ctype    string
	page     string
	data     authboss.HTMLData
	sess     []authboss.ClientStateEvent
	cook     []authboss.ClientStateEvent
}

func (t *twin) run(i int, route string, v *world.Values, api bool) (observation, bool) {
	f := t.f[i]
	f.vals = v
	r := world.Request("POST", route[len("POST "):], "")
	if t.redir != "" {
		r.Form[authboss.FormValueRedirect] = []string{t.redir} // a local return target supplied by the client
	}
	if api {
		r.Header.Set("Content-Type", "application/json")
	}
	f.w.Body.Next = v
	var rec *world.Recorder
	panicked, _ := world.Try(func() { rec = f.w.Serve(f.w.Route(route), r) })
	if panicked {
		return observation{}, true
	}
	return observation{code: rec.Code, location: rec.Hdr.Get("Location"), ctype: rec.Hdr.Get("Content-Type"),
		page: t.rd[i].page, data: t.rd[i].last, sess: f.w.Session.Events, cook: f.w.Cookies.Events}, false
}

func sameData(a, b authboss.HTMLData) bool {
	ok := true
	for _, k := range []string{authboss.DataErr, "location", "status", "message", authboss.DataValidation, authboss.FormValueRedirect} {
		va, ha := a[k]
		vb, hb := b[k]
		ok = verif.And(ok, ha == hb)
		if ha && hb {
			sa, isa := va.(string)
			sb, isb := vb.(string)
			ok = verif.And(ok, isa == isb)
			if isa && isb {
				ok = verif.And(ok, sa == sb)
			}
		}
	}
	return ok
}

func sameObservation(a, b observation) bool {
	ok := verif.And(a.code == b.code, verif.And(a.location == b.location, verif.And(a.ctype == b.ctype, a.page == b.page)))
	ok = verif.And(ok, sameData(a.data, b.data))
	ok = verif.And(ok, verif.And(sameEvents(a.sess, b.sess), sameEvents(a.cook, b.cook)))
	return ok
}

func oracleOpts() flowOpts {
	o := flowOpts{modules: []string{"auth", "confirm", "lock", "otp", "recover"}, totp: true, sms: true, write500: true}
	if verif.Choice("order", 2) == 1 {
		o.modules = []string{"auth", "lock", "confirm", "otp", "recover"}
	}
	if verif.Thorough() {
		// also the silent error handler and the full module set (remember, oauth2, register, logout hooks)
		o.write500 = verif.Choice("write500", 2) == 1
		if verif.Choice("modules-full", 2) == 1 {
			o.modules = append(append([]string{}, o.modules...), "logout", "oauth2", "register", "remember")
		}
	}
	return o
}

// oracleAccount: the known account of the comparison: the password account (quick), or either
// account - the second one is an OAuth2 account that may have no password at all (thorough).
func oracleAccount(f *flow) *acct {
	if verif.Thorough() {
		return f.a[verif.Choice("known-account", 2)]
	}
	return f.a[0]
}

// C16_LockedPasswordOracle: a correct and an incorrect password submitted to a locked, confirmed
// account give identical observations.
func C16_LockedPasswordOracle() {
	verif.ReplayInInterpreter()
	api := verif.Choice("api", 2) == 1
	t := newTwin(oracleOpts(), api)
	if verif.Choice("lock-config", 2) == 1 {
		// a lock that is shorter than the counting window (the defaults are 12 h inside 5 min)
		for _, f := range t.f {
			f.w.AB.Config.Modules.LockDuration = 10 * time.Minute
			f.w.AB.Config.Modules.LockWindow = time.Hour
		}
	}
	a := oracleAccount(t.f[0])
	good := &world.Values{PID: a.pid, Password: verif.String("goodpw", 3), Remember: verif.Bool("rm")}
	bad := &world.Values{PID: a.pid, Password: verif.String("badpw", 3), Remember: good.Remember}
	verif.Assume(verif.And(a.hasPw, good.Password == a.pw))
	verif.Assume(bad.Password != a.pw)
	verif.Assume(a.u.Confirmed)
	o1, p1 := t.run(0, "POST /login", good, api)
	o2, p2 := t.run(1, "POST /login", bad, api)
	tEnd := time.Now().UTC()
	if p1 || p2 {
		return
	}
	if tEnd.Sub(t.f[0].now0) > time.Minute {
		return // both requests are served within a minute (the symbolic clock is otherwise unbounded)
	}
	if !a.u.Locked.After(tEnd.Add(time.Hour)) {
		return // only accounts that are locked before, during and well after the request
	}
	verif.Reach("locked-account-compared")
	verif.Assert(o1.code == o2.code, "locked account: same status")
	verif.Assert(o1.location == o2.location, "locked account: same Location")
	verif.Assert(sameData(o1.data, o2.data), "locked account: same body data")
	verif.Assert(sameEvents(o1.sess, o2.sess), "locked account: same session changes")
	verif.Assert(sameEvents(o1.cook, o2.cook), "locked account: same cookie changes")
	verif.Assert(sameObservation(o1, o2), "locked account: correct and incorrect password are indistinguishable")
}

// C16_RecoverExistence: a recovery request naming an existing and one naming a non-existing
// account give identical observations.
func C16_RecoverExistence() {
	verif.ReplayInInterpreter()
	api := verif.Choice("api", 2) == 1
	t := newTwin(oracleOpts(), api)
	a := oracleAccount(t.f[0])
	known := &world.Values{PID: a.pid}
	unknown := &world.Values{PID: verif.String("unknownpid", 4)}
	verif.Assume(verif.And(unknown.PID != pid0, unknown.PID != pid1))
	o1, p1 := t.run(0, "POST /recover", known, api)
	o2, p2 := t.run(1, "POST /recover", unknown, api)
	if p1 || p2 {
		return
	}
	verif.Reach("recover-compared")
	verif.Assert(sameObservation(o1, o2), "recovery request: existing and non-existing account are indistinguishable")
}

// C16_LoginExistence: a failed login naming an unknown account and one naming a known account
// with a wrong secret give identical observations, provided the known account is not locked
// and the attempt does not lock it.
func C16_LoginExistence() {
	verif.ReplayInInterpreter()
	api := verif.Choice("api", 2) == 1
	route := []string{"POST /login", "POST /otp/login"}[verif.Choice("route", 2)]
	t := newTwin(oracleOpts(), api)
	a := oracleAccount(t.f[0])
	wrong := &world.Values{PID: a.pid, Password: verif.String("wrongpw", 3)}
	unknown := &world.Values{PID: verif.String("unknownpid", 4), Password: wrong.Password}
	verif.Assume(verif.And(unknown.PID != pid0, unknown.PID != pid1))
	if route == "POST /login" {
		verif.Assume(verif.Or(!a.hasPw, wrong.Password != a.pw))
	} else {
		for _, o := range a.otps {
			verif.Assume(wrong.Password != o)
		}
	}
	o1, p1 := t.run(0, route, wrong, api)
	o2, p2 := t.run(1, route, unknown, api)
	tEnd := time.Now().UTC()
	if p1 || p2 {
		return
	}
	if tEnd.Sub(t.f[0].now0) > time.Minute {
		return
	}
	post := t.f[0].w.Store.Get(a.pid)
	if a.u.Locked.After(t.f[0].now0) || post.Locked.After(tEnd) || post.Locked.After(t.f[0].now0) {
		return // the known account is locked or this attempt locked it: outside the statement
	}
	verif.Reach("login-failure-compared")
	verif.Assert(sameObservation(o1, o2), "failed login: unknown account and known account with a wrong secret are indistinguishable")
}

package props

import (
	"net/http"

	"verifharness/world"

	"github.com/volatiletech/authboss/v3"
	"github.com/volatiletech/authboss/v3/remember"
)

type rememberWorld struct {
	w      *world.World
	serial int
}

// newRememberWorld: remember module loaded, token table holding exactly (pid, hash), one
// account with that pid.
func newRememberWorld(pid, hash string) *rememberWorld {
	w := world.New()
	w.Init("remember")
	w.Store.Users = []world.Record{world.NewUser(pid, "a@example.com")}
	return &rememberWorld{w: w, serial: w.Store.Seed(pid, hash)}
}

// authenticate presents cookie value `token` to remember.Middleware from an otherwise empty
// browser; returns the uid the response put into the session and whether the table entry was
// consumed.
func (rw *rememberWorld) authenticate(token string) (uid string, used bool) {
	w := rw.w
	w.Cookies.Set(authboss.CookieRemember, token)
	next := http.HandlerFunc(func(wr http.ResponseWriter, r *http.Request) { wr.WriteHeader(200) })
	w.Serve(remember.Middleware(w.AB)(next), world.Request("GET", "/", ""))
	uid, has := w.Session.Lookup(authboss.SessionKey)
	return uid, has && !w.Store.HasSerial(rw.serial)
}

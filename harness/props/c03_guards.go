package props

import (
	"net/http"
	"time"

	"verifharness/verif"

	"github.com/volatiletech/authboss/v3"
	"github.com/volatiletech/authboss/v3/confirm"
	"github.com/volatiletech/authboss/v3/lock"
	"github.com/volatiletech/authboss/v3/otp/twofactor/sms2fa"
	"github.com/volatiletech/authboss/v3/otp/twofactor/totp2fa"
)

func init() {
	register("C03_LoginRoutes", C03_LoginRoutes)
	register("C03_Middlewares", C03_Middlewares)
}

var c03Routes = []string{"POST /login", "POST /otp/login", "POST /recover/end", "GET /oauth2/callback/prov", "POST /2fa/totp/validate", "POST /2fa/sms/validate"}

// C03_LoginRoutes: with lock and confirm loaded (both load orders), no login route ends with a
// session for an account that is locked throughout the request or is unconfirmed.
func C03_LoginRoutes() {
	verif.ReplayInInterpreter()
	o := fullOpts()
	o.recoverLogin, o.write500 = true, true
	if verif.Choice("order", 2) == 1 {
		// lock's handlers registered before confirm's
		o.modules = []string{"auth", "lock", "confirm", "logout", "oauth2", "otp", "recover", "register", "remember"}
	}
	f := newFlow(o)
	f.thoroughAxes()
	route := verif.Param("route")
	if route == "" {
		route = c03Routes[verif.Choice("route", len(c03Routes))]
	}
	v := symbolicValues()
	form := map[string]string{"state": verif.String("q_state", 6), "error": verif.String("q_error", 2), "code": verif.String("q_code", 2)}
	// the OAuth2 account, if any, is account 1 (pid built by the library from provider + uid)
	_, panicked, _ := f.serve(route, v, form)
	ta := time.Now().UTC()
	if panicked {
		return
	}
	second := route == "POST /2fa/totp/validate" || route == "POST /2fa/sms/validate"
	for _, a := range f.a {
		issued := f.issuedTo(a.pid)
		locked := a.u.Locked.After(ta) // locked before, during and after the request
		verif.Witness(verif.And(issued, !locked), "login-of-unlocked-confirmed-account-succeeds")
		if route == "GET /oauth2/callback/prov" && a.pid == pid1 {
			verif.Witness(issued, "oauth2-callback-logs-in-existing-account")
		}
		_ = second
		verif.Assert(verif.Implies(issued, !locked), "no login route issues a session for an account that is locked")
		if route == "GET /oauth2/callback/prov" {
			// recorded finding: confirm hooks Before(EventAuth) only, not Before(EventOAuth2)
			verif.KnownRegion("C03-oauth2-callback-unconfirmed", !a.u.Confirmed)
		}
		verif.Assert(verif.Implies(issued, a.u.Confirmed), "no login route issues a session for an unconfirmed account")
		verif.ClearKnownRegions()
	}
	_ = totp2fa.SessionTOTPPendingPID
	_ = sms2fa.SessionSMSPendingPID
}

// C03_Middlewares: lock.Middleware and confirm.Middleware never pass a locked / unconfirmed
// session user to the wrapped handler.
func C03_Middlewares() {
	verif.ReplayInInterpreter()
	o := fullOpts()
	f := newFlow(o)
	uid, has := f.preS.Lookup2(authboss.SessionKey)
	verif.Assume(verif.And(has, verif.Or(uid == pid0, uid == pid1))) // the middlewares are mounted behind the auth middleware
	ran := false
	next := http.HandlerFunc(func(wr http.ResponseWriter, r *http.Request) { ran = true; wr.WriteHeader(200) })
	kind := verif.Choice("middleware", 2)
	var h http.Handler
	if kind == 0 {
		h = lock.Middleware(f.w.AB)(next)
	} else {
		h = confirm.Middleware(f.w.AB)(next)
	}
	// the protected path: arbitrary, including every path the configuration names
	ps := f.w.AB.Config.Paths
	paths := []string{"/private", "/" + verif.String("path", 6), ps.ConfirmNotOK, ps.LockNotOK, ps.NotAuthorized, ps.Mount, ps.Mount + "/login", ps.AuthLoginOK, ps.RootURL}
	method := []string{"GET", "POST", "HEAD"}[verif.Choice("method", 3)]
	tb := time.Now().UTC()
	_, panicked := f.serveHandler(h, method, paths[verif.Choice("path", len(paths))])
	if panicked {
		return
	}
	a := f.account(uid)
	verif.Witness(ran, "middleware-admits")
	verif.Witness(!ran, "middleware-refuses")
	if kind == 0 {
		verif.Assert(verif.Implies(ran, !a.u.Locked.After(time.Now().UTC())), "lock middleware admits only users that are not locked")
		verif.Assert(verif.Implies(a.u.Locked.Before(tb), ran), "lock middleware admits users whose lock has run out")
	} else {
		verif.Assert(ran == a.u.Confirmed, "confirm middleware admits exactly the confirmed users")
	}
}

package props

import (
	"crypto/sha512"
	"encoding/base64"
	"strings"

	"verifharness/verif"

	"github.com/volatiletech/authboss/v3"
	"github.com/volatiletech/authboss/v3/remember"
)

func init() {
	register("C07_TokenCodec", C07_TokenCodec)
	register("C07_TokenCodecOAuth2", C07_TokenCodecOAuth2)
}

// rememberParse mirrors what a verifier of the cookie must recover: the (pid, hash) pair under
// which remember.GenerateToken's caller stored the token. It is the *specification* of the
// decode step: pid = everything before the last 33 bytes (";" + 32-byte nonce).
func checkRememberCodec(pid string) {
	hash, token, err := remember.GenerateToken(pid)
	verif.Assert(err == nil, "GenerateToken succeeds")
	if err != nil {
		return
	}
	// what the library stores: (pid, hash). What the browser holds: token.
	raw, derr := base64.URLEncoding.DecodeString(token)
	verif.Assert(derr == nil, "cookie value is valid base64url")
	if derr != nil {
		return
	}
	sum := sha512.Sum512(raw)
	verif.Assert(base64.StdEncoding.EncodeToString(sum[:]) == hash, "stored hash is the hash of the cookie's bytes")
	verif.Assert(len(raw) == len(pid)+33, "cookie is pid + separator + 32-byte nonce")
	verif.Assert(string(raw[:len(pid)]) == pid, "cookie starts with the pid it was issued to")

	// Now the decode step of remember.Authenticate, driven through the real function with a
	// one-entry token table: it must look the token up under exactly (pid, hash).
	w := newRememberWorld(pid, hash)
	authedPID, used := w.authenticate(token)
	verif.Witness(used, "cookie-accepted")
	verif.Assert(used, "a freshly issued cookie is accepted (looked up under the pid and hash it was stored with)")
	if used {
		verif.Assert(authedPID == pid, "the session is issued to the account the cookie was issued to")
	}
}

// C07_TokenCodec: every PID byte string (including ';').
func C07_TokenCodec() {
	pid := verif.String("pid", verif.Bound(6, 16))
	verif.KnownRegion("C07-pid-with-semicolon", strings.Contains(pid, ";"))
	checkRememberCodec(pid)
}

// C07_TokenCodecOAuth2: the identifiers the library itself builds for OAuth2 users.
func C07_TokenCodecOAuth2() {
	prov := verif.String("provider", verif.Bound(4, 8))
	uid := verif.String("uid", verif.Bound(4, 8))
	verif.Assume(!strings.Contains(prov, ";"))
	pid := authboss.MakeOAuth2PID(prov, uid)
	verif.KnownRegion("C07-pid-with-semicolon", strings.Contains(pid, ";"))
	checkRememberCodec(pid)
}

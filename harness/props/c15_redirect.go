package props

import (
	"context"
	"encoding/json"
	"regexp"

	"verifharness/verif"
	"verifharness/world"

	"github.com/volatiletech/authboss/v3"
	"github.com/volatiletech/authboss/v3/defaults"
)

func init() {
	register("C15_Redirector", C15_Redirector)
	register("C15_OAuth2PassThrough", C15_OAuth2PassThrough)
}

// dataRenderer records the data handed to the JSON "redirect" page.
type dataRenderer struct {
	last authboss.HTMLData
	page string
}

func (d *dataRenderer) Load(names ...string) error { return nil }
func (d *dataRenderer) Render(ctx context.Context, page string, data authboss.HTMLData) ([]byte, string, error) {
	d.last = data
	d.page = page
	return []byte("{}"), "application/json", nil
}

// offsite is the reference classifier: would a browser resolve location l, relative to an
// https page of this site, to another origin? (WHATWG URL parsing for a special-scheme base:
// leading C0-control/space is stripped, every tab/CR/LF is removed, '\' counts as '/'.)
func offsite(l string) bool {
	return verif.Or(reSchemeRelative.MatchString(l), reHasScheme.MatchString(l))
}

var (
	// optional leading C0/space, then two slash-or-backslash characters possibly separated by tab/CR/LF
	reSchemeRelative = regexp.MustCompile("^[\\x00-\\x20]*[/\\\\][\t\n\r]*[/\\\\]")
	// optional leading C0/space, then ALPHA (ALPHA / DIGIT / + / - / . / removed tab-CR-LF)* ":"
	reHasScheme = regexp.MustCompile("^[\\x00-\\x20]*[A-Za-z]([A-Za-z0-9+.\\-]|[\t\n\r])*:")
)

// C15_Redirector: defaults.Redirector (HTTP redirect and JSON API answer) with an arbitrary
// client-supplied redir value.
func C15_Redirector() {
	w := world.New()
	rd := &dataRenderer{}
	red := defaults.NewRedirector(rd, authboss.FormValueRedirect)
	api := verif.Choice("mode", 2) == 1
	follow := verif.Choice("follow", 2) == 1
	// every length up to the bound is a separate run; within a run each byte is its own input
	redir := verif.Chars("redir", verif.Choice("len", verif.Bound(5, 7)+1))
	r := world.Request("POST", "/auth/login", "")
	r.Form[authboss.FormValueRedirect] = []string{redir}
	if api {
		r.Header.Set("Content-Type", "application/json")
	}
	ro := authboss.RedirectOptions{Code: 307, RedirectPath: "/ok", FollowRedirParam: follow}
	rec := w.Serve(handlerFunc(func(wr responseWriter, rq *request) {
		err := red.Redirect(wr, rq, ro)
		verif.Assert(err == nil, "Redirect returns no error")
	}), r)
	var loc string
	if api {
		l, _ := rd.last["location"].(string)
		loc = l
	} else {
		loc = rec.Hdr.Get("Location")
	}
	verif.Witness(verif.And(loc != "/ok", !offsite(loc)), "a-local-target-is-followed")
	verif.Witness(loc == "/ok", "default-is-used")
	if !follow {
		verif.Assert(loc == "/ok", "without FollowRedirParam the configured path is used")
	}
	verif.Assert(!offsite(loc), "the client is never sent off-site")
	_ = json.Marshal
}

// C15_OAuth2PassThrough: the redir parameter carried through an OAuth2 round trip.
func C15_OAuth2PassThrough() {
	verif.ReplayInInterpreter()
	o := noGuards()
	o.modules = append(o.modules, "oauth2")
	o.totp, o.sms = false, false
	f := newFlow(o)
	redir := verif.Chars("p_redir", verif.Choice("len", verif.Bound(5, 7)+1))
	params := map[string]string{"redir": redir}
	if verif.Choice("other-pass-along-parameter", 2) == 1 {
		params["src"] = "n" // re-attached to the target as its query by End
	}
	enc, _ := json.Marshal(params)
	f.w.Session.Set(authboss.SessionOAuth2Params, string(enc))
	f.w.Session.Set(authboss.SessionOAuth2State, "STATE")
	f.preS = f.w.Session.Snapshot()
	_, panicked, _ := f.serve("GET /oauth2/callback/prov", symbolicValues(), map[string]string{"state": "STATE", "code": "c"})
	if panicked || len(f.w.ErrH.Errs) > 0 {
		return
	}
	loc := f.w.Redirector.Last.Redirect.RedirectPath
	verif.Witness(verif.And(loc != "/", !offsite(loc)), "a-local-target-is-followed")
	// the recording redirector hands RedirectPath to http.Redirect unchanged when it is absolute
	verif.Assert(!offsite(loc), "the OAuth2 round trip never sends the client off-site")
}

package props

import (
	"context"
	"encoding/json"
	"regexp"

	"verifharness/verif"
	"verifharness/world"

	"github.com/volatiletech/authboss/v3"
	"github.com/volatiletech/authboss/v3/defaults"
)

func init() {
	register("C15_Redirector", C15_Redirector)
	register("C15_OAuth2PassThrough", C15_OAuth2PassThrough)
	register("C15_LoginFlows", C15_LoginFlows)
}

// dataRenderer records the data handed to the JSON "redirect" page.
type dataRenderer struct {
	last authboss.HTMLData
	page string
}

func (d *dataRenderer) Load(names ...string) error { return nil }
func (d *dataRenderer) Render(ctx context.Context, page string, data authboss.HTMLData) ([]byte, string, error) {
	d.last = data
	d.page = page
	return []byte("{}"), "application/json", nil
}

// offsite is the reference classifier: would a browser resolve location l, relative to an
// https page of this site, to another origin? (WHATWG URL parsing for a special-scheme base:
// leading C0-control/space is stripped, every tab/CR/LF is removed, '\' counts as '/'.)
func offsite(l string) bool {
	return verif.Or(reSchemeRelative.MatchString(l), reHasScheme.MatchString(l))
}

var (
	// optional leading C0/space, then two slash-or-backslash characters possibly separated by tab/CR/LF
	reSchemeRelative = regexp.MustCompile("^[\\x00-\\x20]*[/\\\\][\t\n\r]*[/\\\\]")
	// optional leading C0/space, then ALPHA (ALPHA / DIGIT / + / - / . / removed tab-CR-LF)* ":"
	reHasScheme = regexp.MustCompile("^[\\x00-\\x20]*[A-Za-z]([A-Za-z0-9+.\\-]|[\t\n\r])*:")
)

// C15_Redirector: defaults.Redirector (HTTP redirect and JSON API answer) with an arbitrary
// client-supplied redir value.
func C15_Redirector() {
	w := world.New()
	rd := &dataRenderer{}
	red := defaults.NewRedirector(rd, authboss.FormValueRedirect)
	api := verif.Choice("mode", 2) == 1
	follow := verif.Choice("follow", 2) == 1
	// every length up to the bound is a separate run; within a run each byte is its own input
	redir := verif.Chars("redir", verif.Choice("len", verif.Bound(5, 7)+1))
	r := world.Request("POST", "/auth/login", "")
	r.Form[authboss.FormValueRedirect] = []string{redir}
	if api {
		r.Header.Set("Content-Type", "application/json")
	}
	ro := authboss.RedirectOptions{Code: 307, RedirectPath: "/ok", FollowRedirParam: follow}
	rec := w.Serve(handlerFunc(func(wr responseWriter, rq *request) {
		err := red.Redirect(wr, rq, ro)
		verif.Assert(err == nil, "Redirect returns no error")
	}), r)
	var loc string
	if api {
		l, _ := rd.last["location"].(string)
		loc = l
	} else {
		loc = rec.Hdr.Get("Location")
	}
	verif.Witness(verif.And(loc != "/ok", !offsite(loc)), "a-local-target-is-followed")
	verif.Witness(loc == "/ok", "default-is-used")
	if !follow {
		verif.Assert(loc == "/ok", "without FollowRedirParam the configured path is used")
	}
	verif.Assert(!offsite(loc), "the client is never sent off-site")
	_ = json.Marshal
}

// C15_OAuth2PassThrough: the redir parameter carried through an OAuth2 round trip.
func C15_OAuth2PassThrough() {
	verif.ReplayInInterpreter()
	o := noGuards()
	o.modules = append(o.modules, "oauth2")
	o.totp, o.sms = false, false
	f := newFlow(o)
	redir := verif.Chars("p_redir", verif.Choice("len", verif.Bound(5, 7)+1))
	params := map[string]string{"redir": redir}
	if verif.Choice("other-pass-along-parameter", 2) == 1 {
		params["src"] = "n" // re-attached to the target as its query by End
	}
	enc, _ := json.Marshal(params)
	f.w.Session.Set(authboss.SessionOAuth2Params, string(enc))
	f.w.Session.Set(authboss.SessionOAuth2State, "STATE")
	f.preS = f.w.Session.Snapshot()
	_, panicked, _ := f.serve("GET /oauth2/callback/prov", symbolicValues(), map[string]string{"state": "STATE", "code": "c"})
	if panicked || len(f.w.ErrH.Errs) > 0 {
		return
	}
	loc := f.w.Redirector.Last.Redirect.RedirectPath
	verif.Witness(verif.And(loc != "/", !offsite(loc)), "a-local-target-is-followed")
	// the recording redirector hands RedirectPath to http.Redirect unchanged when it is absolute
	verif.Assert(!offsite(loc), "the OAuth2 round trip never sends the client off-site")
}

// C15_LoginFlows: "on every flow that follows the parameter (password, OTP, TOTP, SMS ...)": the
// login-type routes served through the shipped defaults.Redirector (form and JSON mode) with an
// arbitrary client-supplied redir form value and arbitrary credentials, from an arbitrary
// invariant state: whatever the route answers, a redirect it emits never points off-site.
func C15_LoginFlows() {
	verif.ReplayInInterpreter()
	rd := &dataRenderer{}
	o := noGuards()
	o.recoverLogin = true
	f := newFlowWith(o, func(w *world.World) {
		w.AB.Config.Core.Redirector = defaults.NewRedirector(rd, authboss.FormValueRedirect)
	})
	routes := []string{"POST /login", "POST /otp/login", "POST /2fa/totp/validate", "POST /2fa/sms/validate", "POST /recover/end", "POST /recover", "POST /register"}
	route := routes[verif.Choice("route", len(routes))]
	api := verif.Choice("mode", 2) == 1
	// the guard itself is explored to 5 / 7 bytes by C15_Redirector; here every target of up to
	// 3 (thorough 5) bytes, which includes "//a", "/\\a", "a:b" and their control-character spellings
	redir := verif.Chars("redir", verif.Choice("len", verif.Bound(3, 5)+1))
	v := symbolicValues()
	f.vals = v
	r := world.Request("POST", route[len("POST "):], "")
	r.Form[authboss.FormValueRedirect] = []string{redir}
	if api {
		r.Header.Set("Content-Type", "application/json")
	}
	f.w.Body.Next = v
	var rec *world.Recorder
	panicked, _ := world.Try(func() { rec = f.w.Serve(f.w.Route(route), r) })
	if panicked {
		return
	}
	loc := rec.Hdr.Get("Location")
	if api {
		loc, _ = rd.last["location"].(string)
	}
	verif.Witness(verif.And(verif.And(loc != "", loc == redir), !offsite(loc)), "a-local-target-is-followed")
	verif.Witness(verif.And(loc != "", loc != redir), "a-configured-target-is-used")
	verif.Assert(!offsite(loc), "no login-type flow ever sends the client off-site")
}

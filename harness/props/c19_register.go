package props

import (
	"encoding/json"
	"strings"

	"verifharness/stubs"
	"verifharness/verif"
	"verifharness/world"

	"github.com/volatiletech/authboss/v3"
	"github.com/volatiletech/authboss/v3/defaults"
)

func init() {
	register("C19_TallyCharacters", C19_TallyCharacters)
	register("C19_RulesExact", C19_RulesExact)
	register("C19_ConfirmFields", C19_ConfirmFields)
	register("C19_Register", C19_Register)
	register("C19_HasherExact", C19_HasherExact)
}

// C19_TallyCharacters (K1): the real tallyCharacters against a reference classification, for
// every ASCII string up to the bound (each byte its own input).
func C19_TallyCharacters() {
	verif.NoSummary("defaults.tallyCharacters")
	s := verif.Chars("s", verif.Choice("len", verif.Bound(4, 6)+1))
	verif.Assume(verif.AllBytesIn(s, "\x00\x7f")) // ASCII (the byte/character distinction is out of scope)
	u, l, n, sy, w := defaults.VerifTally(s)
	ru, rl, rn, rsy, rw := 0, 0, 0, 0, 0
	for i := 0; i < len(s); i++ {
		c := s[i]
		ru += verif.IteInt(verif.And(c >= 'A', c <= 'Z'), 1, 0)
		rl += verif.IteInt(verif.And(c >= 'a', c <= 'z'), 1, 0)
		rn += verif.IteInt(verif.And(c >= '0', c <= '9'), 1, 0)
		rw += verif.IteInt(verif.Or(verif.And(c >= 9, c <= 13), c == ' '), 1, 0)
	}
	rsy = len(s) - ru - rl - rn - rw
	verif.Assert(u == ru && l == rl && n == rn && w == rw && sy == rsy, "character classes are counted exactly")
}

// C19_RulesExact (K2): Rules.Errors / IsValid with symbolic settings accepts a value exactly
// when it meets every configured minimum (tallyCharacters replaced by its contract).
func C19_RulesExact() {
	verif.ReplayInInterpreter() // the class counts come from the contract of tallyCharacters
	r := defaults.Rules{
		FieldName:       "password",
		Required:        verif.Bool("Required"),
		MinLength:       verif.Int("MinLength", 0, 9),
		MaxLength:       verif.Int("MaxLength", 0, 9),
		MinLetters:      verif.Int("MinLetters", 0, 9),
		MinLower:        verif.Int("MinLower", 0, 9),
		MinUpper:        verif.Int("MinUpper", 0, 9),
		MinNumeric:      verif.Int("MinNumeric", 0, 9),
		MinSymbols:      verif.Int("MinSymbols", 0, 9),
		AllowWhitespace: verif.Bool("AllowWhitespace"),
	}
	verif.NoSummary("defaults.Rules).Errors") // the real body of Errors, over the contract of tallyCharacters
	s := verif.String("value", 8)
	errs := r.Errors(s)
	t := stubs.LastTally
	verif.Witness(errs == nil, "some-value-accepted")
	verif.Witness(errs != nil, "some-value-rejected")
	verif.Assert((errs == nil) == stubs.RulesAccept(r, len(s), t, stubs.Blank(s)), "a value is accepted exactly when it meets every configured minimum")
}

// C19_ConfirmFields (K3): the confirm-field logic of HTTPFormValidator.Validate.
func C19_ConfirmFields() {
	vals := map[string]string{}
	hasMain, hasCnf := verif.Choice("hasPassword", 2) == 1, verif.Choice("hasConfirm", 2) == 1
	main, cnf := verif.String("password", 4), verif.String("confirm_password", 4)
	if hasMain {
		vals["password"] = main
	}
	if hasCnf {
		vals["confirm_password"] = cnf
	}
	v := defaults.HTTPFormValidator{Values: vals, ConfirmFields: []string{"password", "confirm_password"}}
	errs := v.Validate()
	want := hasMain && main != "" && (!hasCnf || cnf == "" || cnf != main)
	verif.Witness(len(errs) > 0, "mismatch-detected")
	verif.Assert((len(errs) > 0) == want, "a non-empty field must be confirmed by an equal non-empty confirmation")
}

// C19_Register: POST /register through the real defaults.HTTPBodyReader (form and JSON), with
// and without the confirm module.
func C19_Register() {
	verif.ReplayInInterpreter()
	jsonMode := verif.Choice("json", 2) == 1
	withConfirm := verif.Choice("confirm", 2) == 1
	o := flowOpts{modules: []string{"auth", "register"}, write500: true}
	if withConfirm {
		o.modules = []string{"auth", "confirm", "register"}
	}
	f := newFlowWith(o, func(w *world.World) {
		w.AB.Config.Core.BodyReader = defaults.NewHTTPBodyReader(jsonMode, false)
	})
	email := verif.String("f_email", 8)
	pw := verif.String("f_password", 10)
	cnf := verif.String("f_confirm_password", 10)
	extra := verif.String("f_admin", 3)
	fields := map[string]string{"email": email}
	// missing / present fields
	if verif.Choice("hasPassword", 2) == 1 {
		fields["password"] = pw
	}
	if verif.Choice("hasConfirm", 2) == 1 {
		fields["confirm_password"] = cnf
	}
	fields["admin"] = extra // a hostile extra field
	fields["EMAIL"] = verif.String("f_email_upper", 3) // a case variant of a whitelisted name is another field
	r := world.Request("POST", "/register", "")
	if jsonMode {
		b, _ := json.Marshal(fields)
		r.Body = &stubs.StringBody{S: string(b)}
		r.Header.Set("Content-Type", "application/json")
	} else {
		for k, v := range fields {
			r.Form[k] = []string{v}
		}
	}
	preUID, preHas := f.preS.Lookup2(authboss.SessionKey)
	nUsers := len(f.w.Store.Users)
	panicked, _ := world.Try(func() { f.w.Serve(f.w.Route("POST /register"), r) })
	if panicked || len(f.w.ErrH.Errs) > 0 {
		return
	}
	created := storeEffects(f.w.Store.Effects, "Create")
	postUID, postHas := f.w.Session.Lookup2(authboss.SessionKey)
	exists := verif.Or(email == pid0, email == pid1)
	newRec := f.w.Store.GetRec(email)
	isNew := !exists && newRec != nil && len(f.w.Store.Users) == nUsers+1
	verif.Witness(isNew, "account-created")
	verif.Witness(created == 0, "validation-rejects")
	for _, a := range f.a {
		verif.Assert(f.w.Store.Get(a.pid).Same(a.u), "existing accounts are never changed by a registration")
	}
	if !isNew {
		verif.Assert(len(f.w.Store.Users) == nUsers, "a failed registration creates nothing")
		verif.Assert(postHas == preHas && (!postHas || postUID == preUID), "a failed registration logs nobody in")
	} else {
		u := newRec.B()
		p, hasP := fields["password"]
		verif.Assert(hasP && world.HashMatches(u.Password, p), "the stored password is a hash of the submitted one")
		verif.Assert(u.Password != p && strings.HasPrefix(u.Password, "$vh$"), "the stored password is not the plaintext")
		for k := range u.Arbitrary {
			verif.Assert(k == "email", "extra fields are only the whitelisted ones")
		}
		_, hostile := u.Arbitrary["admin"]
		verif.Assert(!hostile, "a hostile extra field is not stored")
		if withConfirm {
			verif.Assert(!postHas || (preHas && postUID == preUID), "with e-mail confirmation in force the new user is not logged in")
			verif.Assert(!u.Confirmed && u.ConfirmSelector != "", "with e-mail confirmation in force the new account starts unconfirmed")
		} else {
			verif.Assert(postHas && postUID == email, "without e-mail confirmation the new user is logged in")
		}
		// the default password policy was enforced: at least 8 bytes and a confirmation that matches
		verif.Assert(len(p) >= 8, "the default policy's minimum length was enforced")
		c, hasC := fields["confirm_password"]
		verif.Assert(hasC && c == p, "the password confirmation was enforced")
	}
}

// C19_HasherExact: "the stored password is a hash of the submitted one" for the shipped bcrypt
// hasher (the exploration of C06_HasherExact).
func C19_HasherExact() { C06_HasherExact() }

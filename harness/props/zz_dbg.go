package props

import "verifharness/verif"

func init() { register("Dbg_Route", Dbg_Route) }

func Dbg_Route() {
	o := fullOpts()
	f := newFlow(o)
	v := symbolicValues()
	form := map[string]string{"state": verif.String("q_state", 6), "error": verif.String("q_error", 2), "code": verif.String("q_code", 2)}
	_, panicked, _ := f.serve(verif.Param("route"), v, form)
	verif.Assert(!panicked, "no panic")
}

package props

import (
	"strings"

	"verifharness/verif"

	"github.com/volatiletech/authboss/v3/otp"
	"github.com/volatiletech/authboss/v3/otp/twofactor"
	"github.com/volatiletech/authboss/v3/otp/twofactor/sms2fa"
)

func init() {
	register("C12_GeneratorContracts", C12_GeneratorContracts)
}

// C12_GeneratorContracts: the three random-code generators are replaced by contracts
// (harness/stubs/summaries.go) in every flow harness; here their real bodies run on arbitrary
// random bytes and the contract is asserted: SMS codes are six decimal digits, recovery codes
// are ten strings "xxxxx-xxxxx" over the code alphabet (in particular free of ',', the
// separator of the stored list), one-time passwords are four dash-separated groups of eight hex
// digits whose stored form is base64(sha512(otp)). Two different outputs are shown reachable
// (the output depends on the random bytes).
func C12_GeneratorContracts() {
	verif.ReplayInInterpreter()
	verif.NoSummaries()
	gen := verif.Param("generator")
	which := 0
	switch gen {
	case "":
		which = verif.Choice("generator", 3)
	case "recovery":
		which = 1
	case "otp":
		which = 2
	}
	switch which {
	case 0:
		code, err := sms2fa.VerifGenerateRandomCode()
		if err != nil {
			return
		}
		verif.Assert(len(code) == 6, "an SMS code has six characters")
		verif.Assert(verif.AllBytesIn(code, "09"), "an SMS code consists of decimal digits")
		verif.Witness(code == "000000", "sms-code-000000")
		verif.Witness(code == "907451", "sms-code-907451")
	case 1:
		codes, err := twofactor.GenerateRecoveryCodes()
		if err != nil {
			return
		}
		verif.Assert(len(codes) == 10, "ten recovery codes are generated")
		for _, c := range codes {
			verif.Assert(len(c) == 11, "a recovery code has eleven characters")
			if len(c) == 11 {
				verif.Assert(c[5] == '-', "a recovery code has a dash in the middle")
				verif.Assert(verif.AllBytesIn(c[:5]+c[6:], "az09"), "recovery codes use lower-case letters and digits only (no ',')")
			}
		}
		if len(codes) == 10 {
			verif.Witness(codes[0] == "aaaaa-aaaaa", "recovery-code-aaaaa")
			verif.Witness(codes[9] == "b9k2m-0zzqx", "recovery-code-other")
		}
	case 2:
		o, hash, err := otp.VerifGenerateOTP()
		if err != nil {
			return
		}
		verif.Assert(len(o) == 35, "a one-time password has 35 characters")
		if len(o) == 35 {
			verif.Assert(o[8] == '-' && o[17] == '-' && o[26] == '-', "groups are dash-separated")
			verif.Assert(verif.AllBytesIn(o[0:8]+o[9:17]+o[18:26]+o[27:35], "09af"), "groups are lower-case hex")
		}
		verif.Assert(hash == hashOTP(o), "the stored form is base64(sha512(otp))")
		verif.Assert(!strings.Contains(hash, ","), "the stored form contains no ','")
	}
}

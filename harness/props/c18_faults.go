package props

import (
	"github.com/volatiletech/authboss/v3/otp/twofactor/sms2fa"
	"net/http"
	"strings"

	"verifharness/stubs"
	"verifharness/verif"

	"github.com/volatiletech/authboss/v3"
	"github.com/volatiletech/authboss/v3/confirm"
	"github.com/volatiletech/authboss/v3/lock"
	"github.com/volatiletech/authboss/v3/remember"
)

func init() {
	register("C18_AllRoutes", C18_AllRoutes)
	register("C18_Middlewares", C18_Middlewares)
}

type faultPlan struct {
	max    int
	fired  []string // sites where a failure was injected
	writes int      // injected failures at state-changing storage calls
	calls  int
}

func isWriteSite(site string) bool {
	switch site {
	case "Save", "Create", "SaveOAuth2", "AddRememberToken", "UseRememberToken", "DelRememberTokens":
		return true
	}
	return false
}

// hook returns the fault oracle: each call may fail (a fresh symbolic boolean per call) while
// the budget lasts.
func (p *faultPlan) hook() func(site string) bool {
	return func(site string) bool {
		p.calls++
		if len(p.fired) >= p.max {
			return false
		}
		if verif.Bool("fault_" + site) {
			p.fired = append(p.fired, site)
			if isWriteSite(site) {
				p.writes++
			}
			return true
		}
		return false
	}
}

func (f *flow) injectFaults(p *faultPlan) {
	h := p.hook()
	f.w.Store.Fault = h
	f.w.Hasher.Fault = h
	f.w.Responder.Fault = h
	f.w.Redirector.Fault = h
	f.w.Mail.Fault = h
	f.w.SMS.Fault = h
}

func subsetCSV(post, pre string) bool {
	if post == "" {
		return true
	}
	ok := true
	for _, e := range strings.Split(post, ",") {
		in := false
		for _, q := range strings.Split(pre, ",") {
			in = verif.Or(in, e == q)
		}
		ok = verif.And(ok, in)
	}
	return ok
}

// C18_AllRoutes: every route with a failure injected at any one (thorough: two) of the
// storage / hasher / responder / redirector / mailer / SMS-sender calls it makes, under both
// error-handler variants.
func C18_AllRoutes() {
	verif.ReplayInInterpreter()
	o := fullOpts()
	o.recoverLogin = true
	o.write500 = verif.Choice("write500", 2) == 1
	f := newFlow(o)
	plan := &faultPlan{max: verif.Bound(1, 2)}
	f.injectFaults(plan)
	routes := f.routes()
	route := verif.Param("route")
	if route == "" {
		route = routes[verif.Choice("route", len(routes))]
	}
	v := symbolicValues()
	form := map[string]string{"state": verif.String("q_state", 6), "error": verif.String("q_error", 2), "code": verif.String("q_code", 2)}
	triedBefore := len(f.w.SMS.Tried)
	if sec, has := f.preS.Lookup2(sms2fa.SessionSMSSecret); has {
		stubs.OutstandingCodes = []string{sec} // generator contract: a fresh code differs from the outstanding one
	}
	_, panicked, _ := f.serve(route, v, form)
	faulted := len(plan.fired) > 0
	if faulted {
		verif.Reach("fault-injected")
	}
	verif.Assert(!panicked, "a backend failure never makes a handler panic")
	if panicked || !faulted {
		return
	}
	errOutcome := len(f.w.ErrH.Errs) > 0 || f.w.Rec.Code >= 500
	if plan.writes > 0 {
		verif.Reach("write-fault-injected")
		verif.Assert(errOutcome, "a request whose storage write failed ends with an error outcome, not a success response")
	}
	// no session on the strength of a one-time credential whose consumption was not saved: if
	// the session was issued, the credential that justified it is spent in the post-store
	for _, a := range f.a {
		if !f.issuedTo(a.pid) {
			continue
		}
		post := f.w.Store.Get(a.pid)
		switch route {
		case "POST /otp/login":
			for _, o := range a.otps {
				verif.Assert(verif.Implies(v.Password == o, !strings.Contains(post.OTPs, hashOTP(o))), "a session issued by a one-time password implies that password is spent in storage")
			}
		case "POST /2fa/totp/validate", "POST /2fa/sms/validate":
			if a.hasCodes {
				pre := strings.Split(a.u.RecoveryCodes, ",")
				for i, c := range a.codes {
					verif.Assert(verif.Implies(verif.And(v.RecoveryCode != "", v.RecoveryCode == c), !strings.Contains(post.RecoveryCodes, pre[i])), "a session issued by a recovery code implies that code is spent in storage")
				}
			}
			if route == "POST /2fa/totp/validate" && v.RecoveryCode == "" {
				lc := f.w.Store.GetRec(a.pid).(interface{ GetTOTPLastCode() string }).GetTOTPLastCode()
				verif.Assert(lc == v.Code, "a session issued by a TOTP code implies the code is recorded as used (replay guard saved)")
			}
		case "POST /recover/end":
			verif.Assert(post.RecoverSelector == "", "a session issued by a recovery token implies the token is spent in storage")
		}
	}
	// ... nor an SMS code that was texted elsewhere: whatever failed, a code the session holds
	// afterwards is still labelled with the number it was (to be) texted to - a failed send must
	// not re-label the code of an earlier recipient as the new recipient's
	if postSec, has := f.w.Session.Lookup2(sms2fa.SessionSMSSecret); has {
		preSec, preHasSec := f.preS.Lookup2(sms2fa.SessionSMSSecret)
		where := f.smsSentTo
		fresh := false
		if len(f.w.SMS.Tried) > triedBefore {
			m := f.w.SMS.Tried[len(f.w.SMS.Tried)-1]
			fresh = m.Text == postSec
			where = verif.Ite(fresh, m.Number, where)
		}
		st, hasST := f.w.Session.Lookup2(sms2fa.SessionSMSSentTo)
		verif.Assert(verif.And(verif.Or(fresh, verif.And(preHasSec, postSec == preSec)), verif.And(hasST, st == where)), "a failed request never makes an SMS code that was texted to another phone count for this one")
	}
	addsCredentials := route == "POST /otp/add" || route == "POST /2fa/totp/confirm" || route == "POST /2fa/sms/confirm" || route == "POST /2fa/recovery/regen"
	if errOutcome && !addsCredentials {
		// a failed request only ever invalidates credentials
		for _, a := range f.a {
			post := f.w.Store.Get(a.pid)
			verif.Assert(subsetCSV(post.OTPs, a.u.OTPs), "a failed request makes no spent one-time password acceptable again")
			verif.Assert(subsetCSV(post.RecoveryCodes, a.u.RecoveryCodes), "a failed request makes no spent recovery code acceptable again")
		}
	}
}

// C18_Middlewares: the remember / lock / confirm middlewares with a failing storage call.
func C18_Middlewares() {
	verif.ReplayInInterpreter()
	o := fullOpts()
	f := newFlow(o)
	plan := &faultPlan{max: 1}
	f.injectFaults(plan)
	ran := false
	next := http.HandlerFunc(func(wr http.ResponseWriter, r *http.Request) { ran = true; wr.WriteHeader(200) })
	var h http.Handler
	kind := verif.Choice("middleware", 3)
	switch kind {
	case 0:
		h = remember.Middleware(f.w.AB)(next)
	case 1:
		h = lock.Middleware(f.w.AB)(next)
	default:
		h = confirm.Middleware(f.w.AB)(next)
	}
	if kind != 0 {
		uid, has := f.preS.Lookup2(authboss.SessionKey)
		verif.Assume(verif.And(has, verif.Or(uid == pid0, uid == pid1)))
	}
	_, panicked := f.serveHandler(h, "GET", "/private")
	if len(plan.fired) > 0 {
		verif.Reach("fault-injected")
	}
	verif.Assert(!panicked, "a backend failure never makes a middleware panic")
	if panicked {
		return
	}
	if kind == 0 && plan.writes > 0 {
		for _, a := range f.a {
			verif.Assert(!f.issuedTo(a.pid), "no session is issued on the strength of a remember token whose consumption was not saved")
		}
	}
	_ = ran
}

package props

import (
	"strings"

	"verifharness/verif"

	"github.com/volatiletech/authboss/v3"
)

func init() {
	register("C14_PIDRoundTrip", C14_PIDRoundTrip)
	register("C14_PIDInjective", C14_PIDInjective)
}

// C14_PIDRoundTrip: for every provider free of ';' and every uid, ParseOAuth2PID(MakeOAuth2PID(p,u))
// returns exactly (p,u) or an error — never another pair.
func C14_PIDRoundTrip() {
	n := verif.Bound(6, 12)
	p := verif.String("provider", n)
	u := verif.String("uid", n)
	verif.Assume(!strings.Contains(p, ";"))
	pid := authboss.MakeOAuth2PID(p, u)
	p2, u2, err := authboss.ParseOAuth2PID(pid)
	verif.Witness(err == nil, "parse-succeeds")
	verif.Witness(err != nil, "parse-fails-for-some-uid")
	if err == nil {
		verif.Assert(p2 == p, "parsed provider is the provider that was encoded")
		verif.Assert(u2 == u, "parsed uid is the uid that was encoded")
	}
}

// C14_PIDInjective: distinct (provider, uid) pairs never map to the same account identifier
// (providers free of the separator character ';').
func C14_PIDInjective() {
	n := verif.Bound(6, 12)
	p1 := verif.String("provider1", n)
	u1 := verif.String("uid1", n)
	p2 := verif.String("provider2", n)
	u2 := verif.String("uid2", n)
	verif.Assume(!strings.Contains(p1, ";"))
	verif.Assume(!strings.Contains(p2, ";"))
	verif.Assume(verif.Or(p1 != p2, u1 != u2))
	a := authboss.MakeOAuth2PID(p1, u1)
	b := authboss.MakeOAuth2PID(p2, u2)
	verif.Witness(verif.And(p1 != p2, u1 != u2), "distinct-pairs-exist")
	verif.Assert(a != b, "distinct (provider,uid) pairs give distinct PIDs")
}

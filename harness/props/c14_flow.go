package props

import (
	"encoding/json"
	"verifharness/verif"

	"github.com/volatiletech/authboss/v3"
)

func init() {
	register("C14_Callback", C14_Callback)
	register("C14_Start", C14_Start)
}

func storeEffects(effects []string, names ...string) int {
	n := 0
	for _, e := range effects {
		for _, x := range names {
			if e == x {
				n++
			}
		}
	}
	return n
}

// C14_Callback: GET /oauth2/callback/prov with arbitrary state / code / error parameters from
// an arbitrary session.
func C14_Callback() {
	verif.ReplayInInterpreter()
	o := noGuards()
	o.modules = append(o.modules, "oauth2")
	o.totp, o.sms = false, false
	o.write500 = verif.Choice("write500", 2) == 1
	f := newFlow(o)
	// Inv A2: a present oauth2_params value was written by Start, i.e. it is the JSON encoding
	// of the pass-along parameters (0-2 of them here, including the two the module interprets)
	params := map[string]string{}
	switch verif.Choice("params", 3) {
	case 1:
		params["redir"] = verif.String("p_redir", 6)
	case 2:
		params["redir"] = verif.String("p_redir", 6)
		params["rm"] = verif.String("p_rm", 4)
	}
	enc, _ := json.Marshal(params)
	f.w.Session.SetP(authboss.SessionOAuth2Params, string(enc), verif.Bool("has_oauth2_params_json"))
	f.preS = f.w.Session.Snapshot()
	form := map[string]string{"state": verif.String("q_state", 6), "error": verif.String("q_error", 2), "code": verif.String("q_code", 2)}
	preState, preStateHas := f.preS.Lookup2(authboss.SessionOAuth2State)
	preUID, preHas := f.preS.Lookup2(authboss.SessionKey)
	_, panicked, _ := f.serve("GET /oauth2/callback/prov", symbolicValues(), form)
	if panicked {
		return
	}
	matches := verif.And(preStateHas, form["state"] == preState)
	postUID, postHas := f.w.Session.Lookup2(authboss.SessionKey)
	changed := verif.Or(postHas != preHas, verif.And(postHas, postUID != preUID))
	created := storeEffects(f.w.Store.Effects, "NewFromOAuth2", "SaveOAuth2")
	verif.Witness(verif.And(matches, changed), "callback-logs-in")
	verif.Witness(!matches, "state-mismatch")
	if !matches {
		verif.Assert(!changed, "a callback without the session's own state logs nobody in")
		verif.Assert(created == 0, "a callback without the session's own state creates or updates no user")
	}
	if matches {
		// the state is spent by the first callback that matches it — provided the response is
		// written (an error outcome under the silent default error handler writes nothing)
		flushed := f.w.Rec.WroteHeader
		if flushed {
			verif.Assert(!f.w.Session.Has(authboss.SessionOAuth2State), "a matching callback spends the state")
			verif.Assert(!f.w.Session.Has(authboss.SessionOAuth2Params), "a matching callback spends the carried parameters")
		}
		if form["error"] != "" {
			verif.Assert(!changed, "a provider-reported error logs nobody in")
			verif.Assert(created == 0, "a provider-reported error creates or updates no user")
		}
	}
	if changed {
		verif.Assert(postHas, "a callback never logs the browser out")
		verif.Assert(created > 0, "a login goes through NewFromOAuth2 / SaveOAuth2")
		// the session identifies exactly the (provider, uid) pair reported by the provider
		n := len(f.w.Store.Users)
		_ = n
		rec := f.w.Store.Get(postUID)
		verif.Assert(rec != nil, "the session names the stored OAuth2 account")
		if rec != nil {
			verif.Assert(rec.OAuth2Provider == "prov" && postUID == authboss.MakeOAuth2PID("prov", rec.OAuth2UID), "the session identifies the (provider, uid) pair of the account the provider reported")
		}
	}
}

// C14_Start: GET /oauth2/prov stores a fresh non-empty state in the session.
func C14_Start() {
	verif.ReplayInInterpreter()
	o := noGuards()
	o.modules = append(o.modules, "oauth2")
	f := newFlow(o)
	preState, preStateHas := f.preS.Lookup2(authboss.SessionOAuth2State)
	_, panicked, _ := f.serve("GET /oauth2/prov", symbolicValues(), nil)
	verif.Assert(!panicked, "no panic")
	st, has := f.w.Session.Lookup2(authboss.SessionOAuth2State)
	verif.Assert(has && st != "", "start stores a non-empty state")
	verif.Witness(verif.And(preStateHas, st != preState), "state-is-renewed")
	verif.Assert(f.w.Redirector.Last.Kind == "redirect", "start redirects to the provider")
	verif.Assert(!f.w.Session.Has(authboss.SessionOAuth2Params), "without pass-along parameters none are stored")
}

package props

import (
	"strings"

	"verifharness/verif"

	"github.com/pquerna/otp/totp"
	"github.com/volatiletech/authboss/v3"
	"github.com/volatiletech/authboss/v3/otp/twofactor/sms2fa"
	"github.com/volatiletech/authboss/v3/otp/twofactor/totp2fa"
)

func init() {
	register("C13_AllRoutes", C13_AllRoutes)
	register("C13_SMSSetupThenConfirm", C13_SMSSetupThenConfirm)
	register("C13_EmailVerifyEnd", C13_EmailVerifyEnd)
}

func settingsOpts() flowOpts {
	o := noGuards()
	o.write500 = true
	return o
}

// validRecovery: v carries one of a's unused recovery codes.
func validRecovery(a *acct, code string) bool {
	rc := false
	for _, c := range a.codes {
		rc = verif.Or(rc, verif.And(a.hasCodes, code == c))
	}
	return verif.And(code != "", rc)
}

// C13_AllRoutes: one request on any route from any session: an account's TOTP secret, SMS
// number or recovery codes change only through a fully authenticated session of that account
// that proves the factor; with e-mail authorisation required, the enrolment routes do nothing
// for sessions that are not authorised.
func C13_AllRoutes() {
	verif.ReplayInInterpreter()
	o := settingsOpts()
	o.emailAuth = verif.Choice("emailAuth", 2) == 1
	f := newFlow(o)
	routes := f.routes()
	route := verif.Param("route")
	if route == "" {
		route = routes[verif.Choice("route", len(routes))]
	}
	v := symbolicValues()
	S := f.preS
	uid, hasUID := S.Lookup2(authboss.SessionKey)
	half := S.Has(authboss.SessionHalfAuthKey)
	authed, hasAuthed := S.Lookup2(authboss.Session2FAAuthed)
	totpSec, hasTotpSec := S.Lookup2(totp2fa.SessionTOTPSecret)
	smsSec, hasSmsSec := S.Lookup2(sms2fa.SessionSMSSecret)
	smsNum, hasSmsNum := S.Lookup2(sms2fa.SessionSMSNumber)
	// A6 (enrolment form): the code held by the session was texted to the number being enrolled,
	// or - for removal - to the account's registered number
	_, panicked, _ := f.serve(route, v, nil)
	if panicked {
		return
	}
	verif.Reach("route-served")
	emailOK := verif.Or(!o.emailAuth, verif.And(hasAuthed, authed == "true"))
	for _, a := range f.a {
		post := f.w.Store.Get(a.pid)
		full := verif.And(verif.And(hasUID, uid == a.pid), !half)
		secretChanged := post.TOTPSecretKey != a.u.TOTPSecretKey
		numberChanged := post.SMSPhoneNumber != a.u.SMSPhoneNumber
		codesChanged := post.RecoveryCodes != a.u.RecoveryCodes
		verif.Witness(secretChanged, "totp-secret-changes")
		verif.Witness(numberChanged, "sms-number-changes")
		verif.Witness(codesChanged, "recovery-codes-change")
		if secretChanged {
			verif.Assert(full, "the TOTP secret changes only through a fully authenticated session of that account")
			if post.TOTPSecretKey != "" {
				verif.Assert(route == "POST /2fa/totp/confirm", "TOTP is enabled only by the confirm route")
				verif.Assert(verif.And(hasTotpSec, post.TOTPSecretKey == totpSec), "the enrolled secret is the one the session was set up with")
				verif.Assert(totp.Validate(v.Code, totpSec), "enabling TOTP needs a valid code for the secret being enrolled")
				verif.Assert(emailOK, "enrolment needs e-mail authorisation when it is required")
				verif.Assert(!f.w.Session.Has(authboss.Session2FAAuthed), "a completed enrolment spends the e-mail authorisation")
			} else {
				verif.Assert(route == "POST /2fa/totp/remove", "TOTP is disabled only by the remove route")
				verif.Assert(verif.Or(validRecovery(a, v.RecoveryCode), verif.And(v.RecoveryCode == "", totp.Validate(v.Code, a.u.TOTPSecretKey))), "disabling TOTP needs a current code or an unused recovery code")
			}
		}
		if numberChanged {
			verif.Assert(full, "the SMS number changes only through a fully authenticated session of that account")
			if post.SMSPhoneNumber != "" {
				verif.Assert(route == "POST /2fa/sms/confirm", "SMS 2FA is enabled only by the confirm route")
				verif.Assert(verif.And(hasSmsNum, post.SMSPhoneNumber == smsNum), "the enrolled number is the one the session was set up with")
				verif.Assert(verif.And(verif.And(hasSmsSec, v.Code != ""), v.Code == smsSec), "enabling SMS 2FA needs the code held by the session")
				verif.Assert(emailOK, "enrolment needs e-mail authorisation when it is required")
				verif.Assert(!f.w.Session.Has(authboss.Session2FAAuthed), "a completed enrolment spends the e-mail authorisation")
			} else {
				verif.Assert(route == "POST /2fa/sms/remove", "SMS 2FA is disabled only by the remove route")
				verif.Assert(verif.Or(validRecovery(a, v.RecoveryCode), verif.And(verif.And(v.RecoveryCode == "", v.Code != ""), verif.And(hasSmsSec, v.Code == smsSec))), "disabling SMS 2FA needs the current code or an unused recovery code")
			}
		}
		if codesChanged {
			usedOne := false // exactly the submitted recovery code was removed
			if a.hasCodes {
				parts := strings.Split(a.u.RecoveryCodes, ",")
				if len(parts) == 2 {
					usedOne = verif.Or(verif.And(v.RecoveryCode == a.codes[0], post.RecoveryCodes == parts[1]), verif.And(v.RecoveryCode == a.codes[1], post.RecoveryCodes == parts[0]))
				} else {
					usedOne = verif.And(v.RecoveryCode == a.codes[0], post.RecoveryCodes == "")
				}
			}
			verif.Witness(usedOne, "recovery-code-consumed")
			pendingT, hasPT := S.Lookup2(totp2fa.SessionTOTPPendingPID)
			pendingS, hasPS := S.Lookup2(sms2fa.SessionSMSPendingPID)
			pending := verif.Or(verif.And(hasPT, pendingT == a.pid), verif.And(hasPS, pendingS == a.pid))
			owner := verif.And(hasUID, uid == a.pid) // possibly half-authenticated: may re-validate with (and thereby consume) a recovery code
			validateRoute := route == "POST /2fa/totp/validate" || route == "POST /2fa/sms/validate"
			verif.Assert(verif.Or(full, verif.And(verif.And(validateRoute, usedOne), verif.Or(pending, owner))), "recovery codes change only for the fully authenticated owner; a pending login may only consume the code it presents")
			rekeyRoute := route == "POST /2fa/totp/confirm" || route == "POST /2fa/sms/confirm" || route == "POST /2fa/recovery/regen"
			verif.Assert(verif.Or(usedOne, rekeyRoute), "recovery codes are re-keyed only by enrolment and regeneration")
		}
	}
	// e-mail authorisation gate: without it the enrolment routes have no effect at all
	if o.emailAuth && strings.HasPrefix(route, "POST /2fa/") && (strings.HasSuffix(route, "/setup") || strings.HasSuffix(route, "/confirm")) {
		if !verif.And(hasAuthed, authed == "true") {
			verif.Assert(f.w.Store.Saves == 0, "without e-mail authorisation the enrolment routes change nothing in storage")
			for _, k := range []string{totp2fa.SessionTOTPSecret, sms2fa.SessionSMSSecret, sms2fa.SessionSMSNumber} {
				pv, ph := S.Lookup2(k)
				nv, nh := f.w.Session.Lookup2(k)
				verif.Assert(verif.And(ph == nh, verif.Implies(nh, pv == nv)), "without e-mail authorisation the enrolment routes leave the session's enrolment state alone")
			}
		}
	}
}

// C13_SMSSetupThenConfirm: setup then confirm from a fully authenticated session: the number
// that gets enrolled is one a code was actually texted to, and that code was submitted.
func C13_SMSSetupThenConfirm() {
	verif.ReplayInInterpreter()
	o := settingsOpts()
	o.write500 = verif.Choice("write500", 2) == 1
	f := newFlow(o)
	a := f.a[0]
	f.w.Session.Set(authboss.SessionKey, a.pid)
	f.w.Session.Del(authboss.SessionHalfAuthKey)
	// A6: a code already held by the session was texted to smsSentTo; if a number is being
	// enrolled it is that number
	sn, hasSN := f.w.Session.Lookup2(sms2fa.SessionSMSNumber)
	verif.Assume(verif.Implies(verif.And(hasSN, f.w.Session.Has(sms2fa.SessionSMSSecret)), f.smsSentTo == sn))
	f.preS = f.w.Session.Snapshot()
	v1 := symbolicValues()
	sentBefore := len(f.w.SMS.Sent)
	_, panicked, _ := f.serve("POST /2fa/sms/setup", v1, nil)
	if panicked {
		return
	}
	sentTo := f.smsSentTo
	if len(f.w.SMS.Sent) > sentBefore {
		sentTo = f.w.SMS.Sent[len(f.w.SMS.Sent)-1].Number
	}
	f.preS = f.w.Session.Snapshot()
	v2 := symbolicValues2()
	_, panicked, _ = f.serve("POST /2fa/sms/confirm", v2, nil)
	if panicked {
		return
	}
	post := f.w.Store.Get(a.pid)
	enrolled := verif.And(post.SMSPhoneNumber != a.u.SMSPhoneNumber, post.SMSPhoneNumber != "")
	verif.Witness(enrolled, "number-enrolled")
	verif.KnownRegion("C13-sms-setup-rate-limited-number-switch", verif.And(o.write500, len(f.w.SMS.Sent) == sentBefore))
	verif.Assert(verif.Implies(enrolled, post.SMSPhoneNumber == sentTo), "the enrolled number is the number the submitted code was texted to")
}

// C13_EmailVerifyEnd: the e-mail authorisation is granted only for the token that was issued
// into this session.
func C13_EmailVerifyEnd() {
	verif.ReplayInInterpreter()
	o := settingsOpts()
	o.emailAuth = true
	f := newFlow(o)
	kind := []string{"totp", "sms"}[verif.Choice("kind", 2)]
	v := symbolicValues()
	tok, hasTok := f.preS.Lookup2(authboss.Session2FAAuthToken)
	_, preAuthed := f.preS.Lookup2(authboss.Session2FAAuthed)
	_, panicked, _ := f.serve("GET /2fa/"+kind+"/email/verify/end", v, nil)
	if panicked {
		return
	}
	authed, has := f.w.Session.Lookup2(authboss.Session2FAAuthed)
	granted := verif.And(verif.And(has, authed == "true"), !preAuthed)
	verif.Witness(granted, "authorisation-granted")
	verif.KnownRegion("C13-email-verify-empty-token", verif.And(!hasTok, v.Token == ""))
	verif.Assert(verif.Implies(granted, verif.And(hasTok, v.Token == tok)), "authorisation is granted only for the token issued into this session")
	if granted {
		verif.Assert(!f.w.Session.Has(authboss.Session2FAAuthToken), "the presented token is spent")
	}
}

package props

import (
	"strings"

	"verifharness/stubs"
	"verifharness/verif"
	"verifharness/world"

	"github.com/pquerna/otp/totp"
	"github.com/volatiletech/authboss/v3"
	"github.com/volatiletech/authboss/v3/otp/twofactor/sms2fa"
	"github.com/volatiletech/authboss/v3/otp/twofactor/totp2fa"
)

func init() {
	register("C13_AllRoutes", C13_AllRoutes)
	register("C13_SMSSetupThenConfirm", C13_SMSSetupThenConfirm)
	register("C13_EmailVerifyEnd", C13_EmailVerifyEnd)
	register("C13_SMSRemoveNeedsOwnPhone", C13_SMSRemoveNeedsOwnPhone)
}

func settingsOpts() flowOpts {
	o := noGuards()
	o.write500 = true
	return o
}

// validRecovery: v carries one of a's unused recovery codes.
func validRecovery(a *acct, code string) bool {
	rc := false
	for _, c := range a.codes {
		rc = verif.Or(rc, verif.And(a.hasCodes, code == c))
	}
	return verif.And(code != "", rc)
}

// C13_AllRoutes: one request on any route from any session: an account's TOTP secret, SMS
// number or recovery codes change only through a fully authenticated session of that account
// that proves the factor; with e-mail authorisation required, the enrolment routes do nothing
// for sessions that are not authorised.
func C13_AllRoutes() {
	verif.ReplayInInterpreter()
	o := settingsOpts()
	o.emailAuth = verif.Choice("emailAuth", 2) == 1
	f := newFlow(o)
	f.thoroughAxes()
	routes := f.routes()
	route := verif.Param("route")
	if route == "" {
		route = routes[verif.Choice("route", len(routes))]
	}
	v := symbolicValues()
	S := f.preS
	uid, hasUID := S.Lookup2(authboss.SessionKey)
	half := S.Has(authboss.SessionHalfAuthKey)
	authed, hasAuthed := S.Lookup2(authboss.Session2FAAuthed)
	totpSec, hasTotpSec := S.Lookup2(totp2fa.SessionTOTPSecret)
	smsSec, hasSmsSec := S.Lookup2(sms2fa.SessionSMSSecret)
	smsNum, hasSmsNum := S.Lookup2(sms2fa.SessionSMSNumber)
	sentBefore := len(f.w.SMS.Tried)
	_, panicked, _ := f.serve(route, v, nil)
	if panicked {
		return
	}
	verif.Reach("route-served")
	// A6 is preserved: a code the session holds afterwards is accompanied by the number it was
	// texted to (by this request, or before it)
	if postSec, has := f.w.Session.Lookup2(sms2fa.SessionSMSSecret); has {
		where := f.smsSentTo
		fresh := false
		if len(f.w.SMS.Tried) > sentBefore { // a message whose delivery failed went to nobody: its code is known to no other phone either
			m := f.w.SMS.Tried[len(f.w.SMS.Tried)-1]
			fresh = m.Text == postSec
			where = verif.Ite(fresh, m.Number, where)
		}
		verif.Assert(verif.Or(fresh, verif.And(hasSmsSec, postSec == smsSec)), "a code held by the session is the one it held before or one texted by this request")
		st, hasST := f.w.Session.Lookup2(sms2fa.SessionSMSSentTo)
		verif.Assert(verif.And(hasST, st == where), "the session records the number its SMS code was texted to (A6 preserved)")
	}
	emailOK := verif.Or(!o.emailAuth, verif.And(hasAuthed, authed == "true"))
	for _, a := range f.a {
		post := f.w.Store.Get(a.pid)
		full := verif.And(verif.And(hasUID, uid == a.pid), !half)
		secretChanged := post.TOTPSecretKey != a.u.TOTPSecretKey
		numberChanged := post.SMSPhoneNumber != a.u.SMSPhoneNumber
		codesChanged := post.RecoveryCodes != a.u.RecoveryCodes
		verif.Witness(secretChanged, "totp-secret-changes")
		verif.Witness(numberChanged, "sms-number-changes")
		verif.Witness(codesChanged, "recovery-codes-change")
		if secretChanged {
			verif.Assert(full, "the TOTP secret changes only through a fully authenticated session of that account")
			if post.TOTPSecretKey != "" {
				verif.Assert(route == "POST /2fa/totp/confirm", "TOTP is enabled only by the confirm route")
				verif.Assert(verif.And(hasTotpSec, post.TOTPSecretKey == totpSec), "the enrolled secret is the one the session was set up with")
				verif.Assert(totp.Validate(v.Code, totpSec), "enabling TOTP needs a valid code for the secret being enrolled")
				verif.Assert(emailOK, "enrolment needs e-mail authorisation when it is required")
				verif.Assert(!f.w.Session.Has(authboss.Session2FAAuthed), "a completed enrolment spends the e-mail authorisation")
			} else {
				verif.Assert(route == "POST /2fa/totp/remove", "TOTP is disabled only by the remove route")
				verif.Assert(verif.Or(validRecovery(a, v.RecoveryCode), verif.And(v.RecoveryCode == "", totp.Validate(v.Code, a.u.TOTPSecretKey))), "disabling TOTP needs a current code or an unused recovery code")
			}
		}
		if numberChanged {
			verif.Assert(full, "the SMS number changes only through a fully authenticated session of that account")
			if post.SMSPhoneNumber != "" {
				verif.Assert(route == "POST /2fa/sms/confirm", "SMS 2FA is enabled only by the confirm route")
				verif.Assert(verif.And(hasSmsNum, post.SMSPhoneNumber == smsNum), "the enrolled number is the one the session was set up with")
				verif.Assert(verif.And(verif.And(hasSmsSec, v.Code != ""), v.Code == smsSec), "enabling SMS 2FA needs the code held by the session")
				verif.Assert(f.smsSentTo == smsNum, "enabling SMS 2FA needs a code that was texted to the number being enrolled")
				verif.Assert(emailOK, "enrolment needs e-mail authorisation when it is required")
				verif.Assert(!f.w.Session.Has(authboss.Session2FAAuthed), "a completed enrolment spends the e-mail authorisation")
			} else {
				verif.Assert(route == "POST /2fa/sms/remove", "SMS 2FA is disabled only by the remove route")
				verif.Assert(verif.Or(validRecovery(a, v.RecoveryCode), verif.And(verif.And(v.RecoveryCode == "", v.Code != ""), verif.And(verif.And(hasSmsSec, v.Code == smsSec), f.smsSentTo == a.u.SMSPhoneNumber))), "disabling SMS 2FA needs the current code, texted to the registered number, or an unused recovery code")
			}
		}
		if codesChanged {
			usedOne := false // exactly the submitted recovery code was removed
			if a.hasCodes {
				parts := strings.Split(a.u.RecoveryCodes, ",")
				if len(parts) == 2 {
					usedOne = verif.Or(verif.And(v.RecoveryCode == a.codes[0], post.RecoveryCodes == parts[1]), verif.And(v.RecoveryCode == a.codes[1], post.RecoveryCodes == parts[0]))
				} else {
					usedOne = verif.And(v.RecoveryCode == a.codes[0], post.RecoveryCodes == "")
				}
			}
			verif.Witness(usedOne, "recovery-code-consumed")
			pendingT, hasPT := S.Lookup2(totp2fa.SessionTOTPPendingPID)
			pendingS, hasPS := S.Lookup2(sms2fa.SessionSMSPendingPID)
			pending := verif.Or(verif.And(hasPT, pendingT == a.pid), verif.And(hasPS, pendingS == a.pid))
			owner := verif.And(hasUID, uid == a.pid) // possibly half-authenticated: may re-validate with (and thereby consume) a recovery code
			validateRoute := route == "POST /2fa/totp/validate" || route == "POST /2fa/sms/validate"
			verif.Assert(verif.Or(full, verif.And(verif.And(validateRoute, usedOne), verif.Or(pending, owner))), "recovery codes change only for the fully authenticated owner; a pending login may only consume the code it presents")
			rekeyRoute := route == "POST /2fa/totp/confirm" || route == "POST /2fa/sms/confirm" || route == "POST /2fa/recovery/regen"
			verif.Assert(verif.Or(usedOne, rekeyRoute), "recovery codes are re-keyed only by enrolment and regeneration")
		}
	}
	// e-mail authorisation gate: without it the enrolment routes have no effect at all
	if o.emailAuth && strings.HasPrefix(route, "POST /2fa/") && (strings.HasSuffix(route, "/setup") || strings.HasSuffix(route, "/confirm")) {
		if !verif.And(hasAuthed, authed == "true") {
			verif.Assert(f.w.Store.Saves == 0, "without e-mail authorisation the enrolment routes change nothing in storage")
			for _, k := range []string{totp2fa.SessionTOTPSecret, sms2fa.SessionSMSSecret, sms2fa.SessionSMSNumber} {
				pv, ph := S.Lookup2(k)
				nv, nh := f.w.Session.Lookup2(k)
				verif.Assert(verif.And(ph == nh, verif.Implies(nh, pv == nv)), "without e-mail authorisation the enrolment routes leave the session's enrolment state alone")
			}
		}
	}
}

// C13_SMSSetupThenConfirm: setup then confirm from a fully authenticated session: the number
// that gets enrolled is one a code was actually texted to, and that code was submitted.
func C13_SMSSetupThenConfirm() {
	verif.ReplayInInterpreter()
	o := settingsOpts()
	o.write500 = verif.Choice("write500", 2) == 1
	f := newFlow(o)
	a := f.a[0]
	f.w.Session.Set(authboss.SessionKey, a.pid)
	f.w.Session.Del(authboss.SessionHalfAuthKey)
	f.preS = f.w.Session.Snapshot()
	v1 := symbolicValues()
	sentBefore := len(f.w.SMS.Sent)
	_, panicked, _ := f.serve("POST /2fa/sms/setup", v1, nil)
	if panicked {
		return
	}
	sentTo := f.smsSentTo
	if len(f.w.SMS.Sent) > sentBefore {
		sentTo = f.w.SMS.Sent[len(f.w.SMS.Sent)-1].Number
	}
	f.preS = f.w.Session.Snapshot()
	v2 := symbolicValues2()
	_, panicked, _ = f.serve("POST /2fa/sms/confirm", v2, nil)
	if panicked {
		return
	}
	post := f.w.Store.Get(a.pid)
	enrolled := verif.And(post.SMSPhoneNumber != a.u.SMSPhoneNumber, post.SMSPhoneNumber != "")
	verif.Witness(enrolled, "number-enrolled")
	verif.KnownRegion("C13-sms-setup-rate-limited-number-switch", verif.And(o.write500, len(f.w.SMS.Sent) == sentBefore))
	verif.Assert(verif.Implies(enrolled, post.SMSPhoneNumber == sentTo), "the enrolled number is the number the submitted code was texted to")
}

// C13_EmailVerifyEnd: the e-mail authorisation is granted only for the token that was issued
// into this session.
func C13_EmailVerifyEnd() {
	verif.ReplayInInterpreter()
	o := settingsOpts()
	o.emailAuth = true
	f := newFlow(o)
	kind := []string{"totp", "sms"}[verif.Choice("kind", 2)]
	v := symbolicValues()
	tok, hasTok := f.preS.Lookup2(authboss.Session2FAAuthToken)
	_, preAuthed := f.preS.Lookup2(authboss.Session2FAAuthed)
	_, panicked, _ := f.serve("GET /2fa/"+kind+"/email/verify/end", v, nil)
	if panicked {
		return
	}
	authed, has := f.w.Session.Lookup2(authboss.Session2FAAuthed)
	granted := verif.And(verif.And(has, authed == "true"), !preAuthed)
	verif.Witness(granted, "authorisation-granted")
	verif.KnownRegion("C13-email-verify-empty-token", verif.And(!hasTok, v.Token == ""))
	verif.Assert(verif.Implies(granted, verif.And(hasTok, v.Token == tok)), "authorisation is granted only for the token issued into this session")
	if granted {
		verif.Assert(!f.w.Session.Has(authboss.Session2FAAuthToken), "the presented token is spent")
	}
}

func symbolicValues3() *world.Values {
	return &world.Values{
		Code:         verif.String("v3_code", 6),
		RecoveryCode: verif.String("v3_rcode", 3),
		PhoneNumber:  verif.String("v3_phone", 5),
		Invalid:      verif.Bool("v3_invalid"),
	}
}

// C13_SMSRemoveNeedsOwnPhone: "disabling [needs] a current code": up to three requests from a
// fully authenticated session of an account with SMS 2FA - optionally a setup for an arbitrary
// number, optionally a remove request (which may text a code), then a remove request: when
// the registered number is removed by an SMS code, that code was texted to the registered
// number and to no other phone (ghost: where each code went).
func C13_SMSRemoveNeedsOwnPhone() {
	verif.ReplayInInterpreter()
	o := settingsOpts()
	f := newFlow(o)
	a := f.a[0]
	reg := a.u.SMSPhoneNumber
	verif.Assume(reg != "")
	f.w.Session.Set(authboss.SessionKey, a.pid)
	f.w.Session.Del(authboss.SessionHalfAuthKey)
	cur, hasCur := f.w.Session.Lookup2(sms2fa.SessionSMSSecret)
	stubs.OutstandingCodes = []string{cur}
	// ghosts: the session's current code went to the registered phone / to some other phone
	toReg := verif.And(hasCur, f.smsSentTo == reg)
	toOther := verif.And(hasCur, f.smsSentTo != reg)
	step := func(route string, v *world.Values) bool {
		f.preS = f.w.Session.Snapshot()
		sent := len(f.w.SMS.Sent)
		code, hasCode := f.w.Session.Lookup2(sms2fa.SessionSMSSecret)
		stubs.OutstandingCodes = []string{code} // generator contract: a fresh code differs from the outstanding one
		before := f.w.Store.Get(a.pid).SMSPhoneNumber
		_, panicked, _ := f.serve(route, v, nil)
		if panicked {
			return false
		}
		after := f.w.Store.Get(a.pid).SMSPhoneNumber
		if verif.And(before != "", after == "") {
			verif.Witness(v.RecoveryCode == "", "number-removed-by-sms-code")
			if v.RecoveryCode == "" {
				verif.Assert(verif.And(hasCode, v.Code == code), "disabling SMS 2FA needs the session's current code")
				verif.Assert(toReg, "the code that disables SMS 2FA was texted to the registered number")
				verif.Assert(!toOther, "the code that disables SMS 2FA was texted to no other phone")
			}
			return false
		}
		if len(f.w.SMS.Sent) > sent {
			m := f.w.SMS.Sent[len(f.w.SMS.Sent)-1]
			same := verif.And(hasCode, m.Text == code)
			toReg = verif.Or(verif.And(same, toReg), m.Number == reg)
			toOther = verif.Or(verif.And(same, toOther), m.Number != reg)
		}
		return true
	}
	if verif.Choice("first-setup", 2) == 1 {
		if !step("POST /2fa/sms/setup", symbolicValues()) {
			return
		}
	}
	if verif.Choice("second-remove", 2) == 1 {
		if !step("POST /2fa/sms/remove", symbolicValues2()) {
			return
		}
	}
	step("POST /2fa/sms/remove", symbolicValues3())
}

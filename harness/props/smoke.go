// Package props holds the property harnesses.
package props

import (
	"strings"

	_ "verifharness/stubs"
	"verifharness/verif"

	"github.com/volatiletech/authboss/v3"
)

// SmokeOAuth2PID: ParseOAuth2PID(MakeOAuth2PID(p,u)) == (p,u) when p has no ';'.
func SmokeOAuth2PID() {
	p := verif.String("provider", 6)
	u := verif.String("uid", 6)
	verif.Assume(!strings.Contains(p, ";"))
	pid := authboss.MakeOAuth2PID(p, u)
	p2, u2, err := authboss.ParseOAuth2PID(pid)
	verif.Assert(err == nil, "parse-ok")
	if err == nil {
		verif.Assert(p2 == p, "provider-roundtrip")
		verif.Assert(u2 == u, "uid-roundtrip")
	}
}

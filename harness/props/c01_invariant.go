package props

import (
	"encoding/json"
	"strconv"
	"strings"
	"time"

	"verifharness/verif"

	"github.com/volatiletech/authboss/v3"
	"github.com/volatiletech/authboss/v3/otp/twofactor/sms2fa"
	"github.com/volatiletech/authboss/v3/otp/twofactor/totp2fa"
)

func init() {
	register("C01_InvariantPreserved", C01_InvariantPreserved)
}

// C01_InvariantPreserved: the inductive half of the step-induction argument. Every flow
// harness starts from a state restricted by the invariant clauses of DESIGN.md Appendix A
// (the verif.Assume calls of symbolicSession / symbolicAccount). Here every registered route
// is run once from such a state with an arbitrary request and the clauses are asserted on the
// post-state: a state that satisfies them can only lead to states that satisfy them, so the
// restriction excludes no reachable state (base case: the empty session and freshly created
// accounts satisfy every clause trivially).
func C01_InvariantPreserved() {
	verif.ReplayInInterpreter()
	o := fullOpts()
	o.recoverLogin = true
	// quick: the error handler that flushes pending events, no e-mail authorisation; thorough: all four
	o.write500 = true
	if verif.Thorough() {
		o.write500 = verif.Choice("write500", 2) == 1
		o.emailAuth = verif.Choice("emailAuth", 2) == 1
	}
	f := newFlow(o)
	routes := f.routes()
	route := verif.Param("route")
	if route == "" {
		route = routes[verif.Choice("route", len(routes))]
	}
	v := symbolicValues()
	// A8 (application side): the application's validation rejects an empty identifier on
	// registration (the typed model body reader has no rules of its own)
	if route == "POST /register" {
		verif.Assume(v.PID != "")
	}
	form := map[string]string{"state": verif.String("q_state", 6), "error": verif.String("q_error", 2), "code": verif.String("q_code", 2),
		"redir": verif.String("q_redir", 4), "rm": verif.String("q_rm", 4)}
	if route == "GET /oauth2/prov" {
		// pass-along parameters of the start request (r.URL.Query())
		f.urlQuery = map[string]string{}
		if verif.Bool("q_has_redir") {
			f.urlQuery["redir"] = form["redir"]
		}
		if verif.Bool("q_has_rm") {
			f.urlQuery["rm"] = form["rm"]
		}
	}
	preS := f.preS
	sentBefore := len(f.w.SMS.Tried)
	_, panicked, _ := f.serve(route, v, form)
	if panicked {
		return
	}
	verif.Reach("route-served")
	S := f.w.Session
	type clause struct {
		ok    bool
		label string
	}
	var cl []clause
	add := func(ok bool, label string) { cl = append(cl, clause{ok, label}) }
	nonEmpty := func(k, label string) {
		val, has := S.Lookup2(k)
		add(verif.Implies(has, val != ""), label)
	}
	// A2 session shape
	nonEmpty(authboss.SessionKey, "A2 preserved: a present uid is non-empty")
	add(verif.Implies(S.Has(authboss.SessionHalfAuthKey), S.Has(authboss.SessionKey)), "A2 preserved: halfauth only next to a uid")
	nonEmpty(authboss.SessionOAuth2State, "A2 preserved: a present oauth2_state is non-empty")
	nonEmpty(authboss.Session2FAAuthToken, "A7 preserved: a present twofactor_auth_token is non-empty")
	nonEmpty(sms2fa.SessionSMSNumber, "A2 preserved: a present sms_number is non-empty")
	nonEmpty(totp2fa.SessionTOTPSecret, "A2 preserved: a present totp_secret is non-empty")
	// values whose shape needs a parser are only re-checked when this request wrote them
	if last, has := S.Lookup2(sms2fa.SessionSMSLast); has && !verif.And(preS.Has(sms2fa.SessionSMSLast), last == f.svalPre(sms2fa.SessionSMSLast)) {
		n, err := strconv.ParseInt(last, 10, 64)
		verif.Assert(err == nil, "A2 preserved: sms_last is a decimal number")
		if err == nil {
			verif.Assert(verif.And(n >= 946684800, n <= 4102444800), "A2 preserved: sms_last is a Unix time of the modelled era")
		}
	}
	if la, has := S.Lookup2(authboss.SessionLastAction); has && !verif.And(preS.Has(authboss.SessionLastAction), la == f.svalPre(authboss.SessionLastAction)) {
		_, err := time.Parse(time.RFC3339, la)
		verif.Assert(err == nil, "A2 preserved: last_action is an RFC3339 instant")
	}
	if ps, has := S.Lookup2(authboss.SessionOAuth2Params); has && !verif.And(preS.Has(authboss.SessionOAuth2Params), ps == f.svalPre(authboss.SessionOAuth2Params)) {
		var m map[string]string
		verif.Assert(json.Unmarshal([]byte(ps), &m) == nil, "A2 preserved: oauth2_params is the JSON encoding of a string map")
	}
	// A6: SMS code destination
	preSec, preHasSec := preS.Lookup2(sms2fa.SessionSMSSecret)
	{
		postSec, has := S.Lookup2(sms2fa.SessionSMSSecret)
		where := f.smsSentTo
		fresh := false
		if len(f.w.SMS.Tried) > sentBefore { // a message whose delivery failed went to nobody: its code is known to no other phone either
			m := f.w.SMS.Tried[len(f.w.SMS.Tried)-1]
			fresh = m.Text == postSec
			where = verif.Ite(fresh, m.Number, where)
		}
		add(verif.Implies(has, verif.Or(fresh, verif.And(preHasSec, postSec == preSec))), "A6 preserved: a code held by the session is the one it held before or one texted by this request")
		st, hasST := S.Lookup2(sms2fa.SessionSMSSentTo)
		add(verif.Implies(has, verif.And(hasST, st == where)), "A6 preserved: the session records the number its SMS code was texted to")
	}
	// A7: the e-mail authorisation mark is set only by the verify-end routes
	_, preAuthed := preS.Lookup2(authboss.Session2FAAuthed)
	postAuthedV, postAuthed := S.Lookup2(authboss.Session2FAAuthed)
	add(verif.Implies(verif.And(verif.And(postAuthed, postAuthedV == "true"), !preAuthed), strings.HasSuffix(route, "/email/verify/end")), "A7 preserved: twofactor_authed is granted only by the e-mail verification end route")
	// A1 / A3 / A5: the stored accounts keep their shape
	for _, a := range f.a {
		post := f.w.Store.Get(a.pid)
		add(post.PID == a.pid, "A1 preserved: stored identifiers never change")
		add(verif.And(post.AttemptCount >= 0, post.AttemptCount <= a.u.AttemptCount+1), "A1 preserved: the attempt count stays non-negative and grows by at most one")
		add((post.ConfirmSelector == "") == (post.ConfirmVerifier == ""), "A3 preserved: confirm selector and verifier are set and cleared together")
		add((post.RecoverSelector == "") == (post.RecoverVerifier == ""), "A3 preserved: recover selector and verifier are set and cleared together")
		add(verif.Or(post.Password == "", strings.HasPrefix(post.Password, "$vh$")), "stored passwords are hasher output")
		add(verif.Or(post.Password == a.u.Password, post.Password != ""), "a stored password is never cleared")
	}
	pids := f.w.Store.PIDs()
	for i := range pids {
		add(pids[i] != "", "A1 preserved: stored identifiers are non-empty")
		for j := i + 1; j < len(pids); j++ {
			add(pids[i] != pids[j], "A1 preserved: stored identifiers are pairwise distinct")
		}
	}
	all := true
	for _, c := range cl {
		all = verif.And(all, c.ok)
	}
	// one query per path for the conjunction; the clauses are asserted one by one (for the label)
	// only on paths where the conjunction can fail
	verif.Assert(all, "Inv is re-established on the post-state")
	if verif.Feasible(!all) {
		for _, c := range cl {
			verif.Assert(c.ok, c.label)
		}
	}
}

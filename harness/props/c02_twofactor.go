package props

import (
	"verifharness/stubs"
	"verifharness/verif"

	"github.com/pquerna/otp/totp"
	"github.com/volatiletech/authboss/v3"
	"github.com/volatiletech/authboss/v3/otp/twofactor/sms2fa"
	"github.com/volatiletech/authboss/v3/otp/twofactor/totp2fa"
)

func init() {
	register("C02_PrimaryNeverIssues", C02_PrimaryNeverIssues)
	register("C02_SecondFactorStep", C02_SecondFactorStep)
	register("C02_LoginThenSMSValidate", C02_LoginThenSMSValidate)
	register("C02_RecoveryCodeUnused", C02_RecoveryCodeUnused)
}

func twoFAOpts() flowOpts {
	o := noGuards()
	o.recoverLogin = true
	o.write500 = true
	return o
}

var primaryRoutes = []string{"POST /login", "POST /otp/login", "POST /recover/end"}

// pickFactors enumerates which second-factor modules are loaded: totp, sms, or both.
func pickFactors(o *flowOpts) {
	switch verif.Choice("factors", 3) {
	case 0:
		o.totp, o.sms = true, false
	case 1:
		o.totp, o.sms = false, true
	default:
		o.totp, o.sms = true, true
	}
}

// hasSecondFactor: account a has a second factor under the loaded modules.
func (f *flow) hasSecondFactor(a *acct) bool {
	r := false
	if f.o.totp {
		r = verif.Or(r, a.u.TOTPSecretKey != "")
	}
	if f.o.sms {
		r = verif.Or(r, a.u.SMSPhoneNumber != "")
	}
	return r
}

// C02_PrimaryNeverIssues: password, one-time-password and recover-and-login requests never
// produce a session for an account with a second factor.
func C02_PrimaryNeverIssues() {
	verif.ReplayInInterpreter()
	o := twoFAOpts()
	pickFactors(&o)
	f := newFlow(o)
	f.thoroughAxes()
	route := primaryRoutes[verif.Choice("route", len(primaryRoutes))]
	v := symbolicValues()
	_, panicked, _ := f.serve(route, v, nil)
	if panicked {
		return
	}
	for _, a := range f.a {
		issued := f.issuedTo(a.pid)
		verif.Witness(verif.And(issued, !f.hasSecondFactor(a)), "login-without-2fa-succeeds")
		verif.Assert(verif.Implies(issued, !f.hasSecondFactor(a)), "a primary credential alone never yields a session for an account with a second factor")
	}
}

// C02_SecondFactorStep: the validate routes complete a login only with a code valid for the
// pending account's own factor or one of its unused recovery codes. For SMS: the code held by
// the session must have been texted to that account's registered number (ghost smsSentTo;
// invariant A6: the session records next to a code the number it was texted to).
func C02_SecondFactorStep() {
	verif.ReplayInInterpreter()
	o := twoFAOpts()
	f := newFlow(o)
	f.thoroughAxes()
	sms := verif.Choice("kind", 2) == 1
	route := "POST /2fa/totp/validate"
	if sms {
		route = "POST /2fa/sms/validate"
	}
	v := symbolicValues()
	_, panicked, _ := f.serve(route, v, nil)
	if panicked {
		return
	}
	for _, a := range f.a {
		issued := f.issuedTo(a.pid)
		verif.Witness(issued, "second-factor-step-succeeds")
		if issued {
			rc := false
			for _, c := range a.codes {
				rc = verif.Or(rc, verif.And(a.hasCodes, v.RecoveryCode == c))
			}
			if sms {
				sec, has := f.preS.Lookup2(sms2fa.SessionSMSSecret)
				codeOK := verif.And(verif.And(has, v.Code == sec), f.smsSentTo == a.u.SMSPhoneNumber)
				verif.Assert(verif.Or(verif.And(v.RecoveryCode != "", rc), verif.And(v.RecoveryCode == "", codeOK)),
					"SMS step completes only with the code texted to the account's own number or its unused recovery code")
			} else {
				verif.Assert(a.u.TOTPSecretKey != "", "TOTP step completes only for an account that has TOTP 2FA")
				ok := totp.Validate(v.Code, a.u.TOTPSecretKey)
				verif.Assert(verif.Or(verif.And(v.RecoveryCode != "", rc), verif.And(v.RecoveryCode == "", ok)),
					"TOTP step completes only with a code valid for the account's own secret or its unused recovery code")
			}
		}
	}
}

// C02_LoginThenSMSValidate: two requests from one browser — any primary login (or SMS resend)
// and then the SMS validate step. A login completes only with a code that was texted to the
// account's own registered number (or its recovery code): a code obtained for another account
// or phone never completes it.
func C02_LoginThenSMSValidate() {
	verif.ReplayInInterpreter()
	o := twoFAOpts()
	o.totp = false
	f := newFlow(o)
	// the browser starts in any state satisfying A6 (flow.go)
	if sec, has := f.preS.Lookup2(sms2fa.SessionSMSSecret); has {
		stubs.OutstandingCodes = []string{sec}
	}
	routes := []string{"POST /login", "POST /otp/login", "POST /recover/end", "POST /2fa/sms/validate"}
	route := routes[verif.Choice("route1", len(routes))]
	v1 := symbolicValues()
	sentBefore := len(f.w.SMS.Sent)
	_, panicked, _ := f.serve(route, v1, nil)
	if panicked {
		return
	}
	// ghost update: every phone that was texted the code the session holds now. A text sent by
	// this request adds its number; if the text is a *new* code the earlier recipients drop out.
	preSecret, preHasSecret := f.preS.Lookup2(sms2fa.SessionSMSSecret)
	sentTo := f.smsSentTo     // the recipient the invariant knows about
	alsoKnownBy := f.smsSentTo // the earlier recipient, if the same code was sent again
	hasAlso := false
	if len(f.w.SMS.Sent) > sentBefore {
		last := f.w.SMS.Sent[len(f.w.SMS.Sent)-1]
		hasAlso = verif.And(preHasSecret, last.Text == preSecret) // the old code was sent again: its earlier recipient still knows it
		sentTo = last.Number
	}
	f.preS = f.w.Session.Snapshot()
	v2 := &valuesAlias{}
	_ = v2
	w2 := symbolicValues2()
	verif.Assume(w2.RecoveryCode == "")
	_, panicked, _ = f.serve("POST /2fa/sms/validate", w2, nil)
	if panicked {
		return
	}
	for _, a := range f.a {
		issued := f.issuedTo(a.pid)
		verif.Witness(issued, "two-step-login-succeeds")
		verif.KnownRegion("C02-sms-rate-limited-relogin", verif.And(route != "POST /2fa/sms/validate", len(f.w.SMS.Sent) == sentBefore))
		verif.Assert(verif.Implies(issued, sentTo == a.u.SMSPhoneNumber), "the SMS code that completes a login was texted to that account's registered number")
		verif.Assert(verif.Implies(verif.And(issued, hasAlso), alsoKnownBy == a.u.SMSPhoneNumber), "the SMS code that completes a login was texted to no other phone")
	}
	_ = totp2fa.SessionTOTPPendingPID
	_ = authboss.SessionKey
}

// C02_RecoveryCodeUnused: "one of its *unused* recovery codes" — a recovery code completes a
// pending login once; the same exploration as C12_RecoveryCodeLogin.
func C02_RecoveryCodeUnused() { C12_RecoveryCodeLogin() }

package props

import (
	"context"
	"net/http"
	"time"

	"verifharness/verif"
	"verifharness/world"

	"github.com/volatiletech/authboss/v3"
	"github.com/volatiletech/authboss/v3/lock"
)

func init() {
	register("C04_FailTransition", C04_FailTransition)
	register("C04_CorrectPasswordTransition", C04_CorrectPasswordTransition)
	register("C04_SuccessTransition", C04_SuccessTransition)
	register("C04_ManualLockUnlock", C04_ManualLockUnlock)
}

const (
	maxDur = int(100 * 365 * 24 * time.Hour) // settings up to 100 years
)

type lockWorld struct {
	w      *world.World
	l      *lock.Lock
	after  int
	window time.Duration
	dur    time.Duration
	count  int
	last   time.Time
	locked time.Time
}

// newLockWorld: lock module hooked up; symbolic LockAfter >= 1, LockWindow, LockDuration >= 0;
// one account with an arbitrary stored (count, last attempt, locked-until).
func newLockWorld() *lockWorld {
	verif.ReplayInInterpreter() // lock.go reads time.Now() directly: the wall clock cannot be pinned natively
	w := world.New()
	l := &lock.Lock{}
	if err := l.Init(w.AB); err != nil {
		panic(err)
	}
	lw := &lockWorld{w: w, l: l}
	lw.after = verif.Int("LockAfter", 1, 1<<31-1)
	lw.window = time.Duration(verif.Int("LockWindow", 0, maxDur))
	lw.dur = time.Duration(verif.Int("LockDuration", 0, maxDur))
	w.AB.Config.Modules.LockAfter = lw.after
	w.AB.Config.Modules.LockWindow = lw.window
	w.AB.Config.Modules.LockDuration = lw.dur
	lw.count = verif.Int("count", 0, 1<<62)
	lw.last = verif.Time("last")
	lw.locked = verif.Time("locked")
	u := world.NewUser("u", "u@x")
	u.AttemptCount, u.LastAttempt, u.Locked = lw.count, lw.last, lw.locked
	o := world.NewUser("other", "o@x")
	o.AttemptCount = 2
	w.Store.Users = []world.Record{u, o}
	return lw
}

// fire runs the lock module's hook for event ev (before/after) the way the login handlers do:
// with the loaded user in the request context.
func (lw *lockWorld) fire(before bool, ev authboss.Event) (handled bool, err error, tb, ta time.Time) {
	w := lw.w
	u, _ := w.Store.Load(context.Background(), "u")
	h := http.HandlerFunc(func(wr http.ResponseWriter, r *http.Request) {
		r = r.WithContext(context.WithValue(r.Context(), authboss.CTXKeyUser, u))
		tb = time.Now().UTC()
		if before {
			handled, err = w.AB.Events.FireBefore(ev, wr, r)
		} else {
			handled, err = w.AB.Events.FireAfter(ev, wr, r)
		}
		ta = time.Now().UTC()
	})
	w.Serve(h, world.Request("POST", "/login", ""))
	return
}

// C04_FailTransition: one authentication failure from an arbitrary stored state.
func C04_FailTransition() {
	lw := newLockWorld()
	verif.Assume(!lw.last.After(time.Now().UTC())) // the previous attempt is in the past (written by the module from the clock)
	handled, err, tb, ta := lw.fire(false, authboss.EventAuthFail)
	verif.Assert(err == nil, "failure hook returns no error")
	post := lw.w.Store.Get("u")
	// reference automaton (see DESIGN.md 4.4); instants read by the code lie in [tb, ta]
	surelyInWindow := ta.Sub(lw.last) <= lw.window
	surelyElapsed := tb.Sub(lw.last) > lw.window
	verif.Witness(surelyInWindow, "failure-within-window")
	verif.Witness(surelyElapsed, "failure-after-window")
	verif.KnownRegion("C04-lockafter-1-window-elapsed", verif.And(lw.after == 1, !surelyInWindow))
	if surelyInWindow {
		verif.Assert(post.AttemptCount == lw.count+1, "a failure within LockWindow increments the count")
	}
	if surelyElapsed {
		verif.Assert(post.AttemptCount == 1, "a failure after a pause longer than LockWindow restarts the count at 1")
	}
	verif.Assert(verif.Or(post.AttemptCount == lw.count+1, post.AttemptCount == 1), "count is incremented or restarted")
	reached := post.AttemptCount >= lw.after
	verif.Witness(reached, "threshold-reached")
	verif.Witness(!reached, "threshold-not-reached")
	if reached {
		verif.Assert(!post.Locked.Before(tb.Add(lw.dur)), "locked until at least failure time + LockDuration")
		verif.Assert(!post.Locked.After(ta.Add(lw.dur)), "locked until at most failure time + LockDuration")
	} else {
		verif.Assert(post.Locked.Equal(lw.locked), "below the threshold the lock is untouched")
	}
	verif.Assert(!post.LastAttempt.Before(tb) && !post.LastAttempt.After(ta), "last attempt is stamped with the failure time")
	// the response: an account that is locked now is intercepted
	lockedNow := post.Locked.After(ta)
	if lockedNow {
		verif.Assert(handled, "a failure that leaves the account locked is intercepted (redirect to LockNotOK)")
	}
	o := lw.w.Store.Get("other")
	verif.Assert(o.AttemptCount == 2 && o.Locked.IsZero(), "other accounts are untouched")
}

// C04_CorrectPasswordTransition: the Before(EventAuth) hook with a correct password never
// counts as a failure and never locks.
func C04_CorrectPasswordTransition() {
	lw := newLockWorld()
	handled, err, tb, ta := lw.fire(true, authboss.EventAuth)
	verif.Assert(err == nil, "before-auth hook returns no error")
	post := lw.w.Store.Get("u")
	verif.Assert(post.AttemptCount == lw.count, "a correct password does not change the failure count")
	verif.Assert(post.Locked.Equal(lw.locked), "a correct password does not change the lock")
	wasLocked := lw.locked.After(ta)
	notLocked := !lw.locked.After(tb)
	verif.Witness(wasLocked, "locked-account")
	verif.Witness(notLocked, "unlocked-account")
	if wasLocked {
		verif.Assert(handled, "a locked account is intercepted even with the correct password")
	}
	if notLocked {
		verif.Assert(!handled, "an unlocked account proceeds")
	}
}

// C04_SuccessTransition: After(EventAuth) resets the count.
func C04_SuccessTransition() {
	lw := newLockWorld()
	_, err, tb, ta := lw.fire(false, authboss.EventAuth)
	verif.Assert(err == nil, "after-auth hook returns no error")
	post := lw.w.Store.Get("u")
	verif.Assert(post.AttemptCount == 0, "a successful login restarts the count")
	verif.Assert(post.Locked.Equal(lw.locked), "a successful login does not touch the lock")
	verif.Assert(!post.LastAttempt.Before(tb) && !post.LastAttempt.After(ta), "last attempt stamped")
}

// C04_ManualLockUnlock: Lock locks for LockDuration; Unlock clears lock and count, and the
// next failure then starts a new count at 1.
func C04_ManualLockUnlock() {
	lw := newLockWorld()
	ctx := context.Background()
	if verif.Choice("op", 2) == 0 {
		tb := time.Now().UTC()
		err := lw.l.Lock(ctx, "u")
		ta := time.Now().UTC()
		verif.Assert(err == nil, "Lock returns no error")
		post := lw.w.Store.Get("u")
		verif.Assert(!post.Locked.Before(tb.Add(lw.dur)) && !post.Locked.After(ta.Add(lw.dur)), "manual lock lasts LockDuration")
		verif.Assert(post.AttemptCount == lw.count, "manual lock keeps the count")
		return
	}
	err := lw.l.Unlock(ctx, "u")
	ta := time.Now().UTC()
	verif.Assert(err == nil, "Unlock returns no error")
	post := lw.w.Store.Get("u")
	verif.Assert(post.AttemptCount == 0, "manual unlock clears the count")
	verif.Assert(!post.Locked.After(ta), "manual unlock clears the lock")
	verif.Assert(!lock.IsLocked(post), "IsLocked is false after unlock")
}

package props

import (
	"net/http"
	"time"

	"verifharness/verif"
	"verifharness/world"

	"github.com/pquerna/otp/totp"
	"github.com/volatiletech/authboss/v3"
	"github.com/volatiletech/authboss/v3/otp/twofactor/sms2fa"
	"github.com/volatiletech/authboss/v3/otp/twofactor/totp2fa"
)

func init() {
	register("C04_EveryPathCounts", C04_EveryPathCounts)
}

// C04_EveryPathCounts: "authentication failures on any path (password, one-time password, 2FA
// code) are counted per account": each of the four credential-checking routes, all modules
// loaded, from an arbitrary invariant state, with a request that names a stored account (by
// identifier, or as the pending second-factor login) and presents a credential that is wrong by
// ground truth: the attempt is recorded on that account (the lock module's failure transition
// ran: last attempt stamped with the request's time, count incremented or restarted) and on no
// other account. A login that completes resets the count.
func C04_EveryPathCounts() {
	verif.ReplayInInterpreter()
	o := fullOpts()
	// an application hook registered before the modules (it runs first) that may answer a
	// completed login itself: the other After(EventAuth) handlers still do their bookkeeping
	hook := verif.Choice("early-app-hook", 2) == 1
	f := newFlowWith(o, func(w *world.World) {
		w.AB.Events.After(authboss.EventAuth, func(wr http.ResponseWriter, r *http.Request, handled bool) (bool, error) {
			if hook {
				wr.WriteHeader(200)
				return true, nil
			}
			return false, nil
		})
	})
	routes := []string{"POST /login", "POST /otp/login", "POST /2fa/totp/validate", "POST /2fa/sms/validate"}
	route := routes[verif.Choice("route", len(routes))]
	v := symbolicValues()
	verif.Assume(!v.Invalid)
	a, other := f.a[0], f.a[1]
	wrong := false
	switch route {
	case "POST /login", "POST /otp/login":
		verif.Assume(v.PID == a.pid)
		wrong = !f.validPrimary(route, a, v)
	case "POST /2fa/totp/validate":
		verif.Assume(!f.preS.Has(authboss.SessionKey))
		p, has := f.preS.Lookup2(totp2fa.SessionTOTPPendingPID)
		verif.Assume(verif.And(has, p == a.pid))
		verif.Assume(a.u.TOTPSecretKey != "")
		wrong = !f.validSecondFactor(route, a, v, totp.Validate(v.Code, a.u.TOTPSecretKey))
	case "POST /2fa/sms/validate":
		verif.Assume(!f.preS.Has(authboss.SessionKey))
		p, has := f.preS.Lookup2(sms2fa.SessionSMSPendingPID)
		verif.Assume(verif.And(has, p == a.pid))
		verif.Assume(a.u.SMSPhoneNumber != "")
		// a request without any code asks for a (re)send: not an attempt
		verif.Assume(verif.Or(v.Code != "", v.RecoveryCode != ""))
		verif.Assume(f.preS.Has(sms2fa.SessionSMSSecret))
		wrong = !f.validSecondFactor(route, a, v, false)
	}
	tb := time.Now().UTC()
	_, panicked, _ := f.serve(route, v, nil)
	ta := time.Now().UTC()
	if panicked || len(f.w.ErrH.Errs) > 0 {
		return
	}
	post := f.w.Store.Get(a.pid)
	postOther := f.w.Store.Get(other.pid)
	verif.Witness(wrong, "wrong-credential")
	if wrong {
		verif.Reach("failure-path")
		verif.Assert(!f.issuedTo(a.pid), "a wrong credential logs nobody in")
		verif.Assert(!post.LastAttempt.Before(tb) && !post.LastAttempt.After(ta), "a failed attempt on this path is recorded on the account (last attempt = the request's time)")
		verif.Assert(verif.Or(post.AttemptCount == a.u.AttemptCount+1, post.AttemptCount == 1), "a failed attempt on this path is counted")
	}
	if f.issuedTo(a.pid) {
		verif.Reach("login-completed")
		verif.Assert(post.AttemptCount == 0, "a completed login resets the count")
	}
	verif.Assert(postOther.AttemptCount == other.u.AttemptCount && postOther.Locked.Equal(other.u.Locked), "attempts on one account never touch another account's count or lock")
}

package props

import (
	"encoding/base64"
	"net/http"

	"verifharness/verif"
	"verifharness/world"

	"github.com/volatiletech/authboss/v3"
	"github.com/volatiletech/authboss/v3/otp/twofactor/sms2fa"
	"github.com/volatiletech/authboss/v3/otp/twofactor/totp2fa"
	"github.com/volatiletech/authboss/v3/remember"
)

func init() {
	register("C01_AllRoutes", C01_AllRoutes)
	register("C01_RememberMiddleware", C01_RememberMiddleware)
	register("C01_OTPUnconsumed", C01_OTPUnconsumed)
}

func fullOpts() flowOpts {
	return flowOpts{modules: allModules, totp: true, sms: true, recovery: true, expire: true}
}

// validPrimary: the request carries a currently valid primary credential of account a for the
// given login route (ground truth from the ghost plaintexts — independent of the handler).
func (f *flow) validPrimary(route string, a *acct, v *world.Values) bool {
	switch route {
	case "POST /login":
		return verif.And(v.PID == a.pid, verif.And(a.hasPw, v.Password == a.pw))
	case "POST /otp/login":
		m := false
		for _, o := range a.otps {
			m = verif.Or(m, v.Password == o)
		}
		return verif.And(v.PID == a.pid, m)
	case "POST /recover/end":
		if !f.o.recoverLogin {
			return false
		}
		raw, err := base64.URLEncoding.DecodeString(v.Token)
		if err != nil {
			return false
		}
		return verif.And(verif.And(a.hasRecoverTok, string(raw) == a.recoverTok), !f.now0.After(a.u.RecoverTokenExpiry))
	}
	return false
}

// validSecondFactor: the request proves account a's own second factor on the validate route.
func (f *flow) validSecondFactor(route string, a *acct, v *world.Values, totpOK bool) bool {
	rc := false
	for _, c := range a.codes {
		rc = verif.Or(rc, verif.And(a.hasCodes, v.RecoveryCode == c))
	}
	switch route {
	case "POST /2fa/totp/validate":
		return verif.Or(verif.And(v.RecoveryCode != "", rc), verif.And(v.RecoveryCode == "", totpOK))
	case "POST /2fa/sms/validate":
		sec, has := f.preS.Lookup2(sms2fa.SessionSMSSecret)
		return verif.Or(verif.And(v.RecoveryCode != "", rc), verif.And(verif.And(v.RecoveryCode == "", v.Code != ""), verif.And(has, v.Code == sec)))
	}
	return false
}

// C01_AllRoutes: one request on any registered route, from an arbitrary Inv-state, with an
// arbitrary body: a session is issued (uid becomes present or changes) only with a valid
// credential of that account; a pending second-factor login is parked only with a valid
// primary credential.
func C01_AllRoutes() {
	verif.ReplayInInterpreter() // TOTP validity and the clock are environment inputs
	o := fullOpts()
	if verif.Choice("modules", 2) == 1 {
		// without confirm and lock: registration logs the new user in, nothing intercepts logins
		o.modules = []string{"auth", "logout", "oauth2", "otp", "recover", "register", "remember"}
	}
	// quick: the most permissive configuration (login after recovery on, error handler that
	// flushes pending events); thorough: all four combinations
	o.recoverLogin, o.write500 = true, true
	if verif.Thorough() {
		o.recoverLogin = verif.Choice("recoverLogin", 2) == 1
		o.write500 = verif.Choice("write500", 2) == 1
	}
	f := newFlow(o)
	f.thoroughAxes()
	routes := f.routes()
	route := verif.Param("route") // debugging aid: restrict to one route
	if route == "" {
		route = routes[verif.Choice("route", len(routes))]
	}
	v := symbolicValues()
	if route == "POST /login" || route == "POST /register" {
		// the application's body may implement only what these routes require (UserValuer)
		f.w.Body.LoginOnly = verif.Choice("minimal-values", 2) == 1
	}
	form := map[string]string{"state": verif.String("q_state", 6), "error": verif.String("q_error", 2), "code": verif.String("q_code", 2)}
	preUID, preHas := f.preS.Lookup2(authboss.SessionKey)
	preTP, preTPHas := f.preS.Lookup2(totp2fa.SessionTOTPPendingPID)
	preSP, preSPHas := f.preS.Lookup2(sms2fa.SessionSMSPendingPID)
	preState, preStateHas := f.preS.Lookup2(authboss.SessionOAuth2State)

	_, panicked, _ := f.serve(route, v, form)
	if panicked {
		return // panics are C18's subject
	}
	verif.Reach("route-served")
	S := f.w.Session
	postUID, postHas := S.Lookup2(authboss.SessionKey)
	issued := verif.And(postHas, verif.Or(!preHas, postUID != preUID))
	verif.Witness(issued, "some-route-issues-a-session")
	if issued {
		verif.Reach("session-issued")
		a := f.account(postUID)
		switch route {
		case "POST /login", "POST /otp/login", "POST /recover/end":
			verif.Assert(a != nil, "session issued to a stored account")
			if a != nil {
				verif.Assert(f.validPrimary(route, a, v), "session issued only with a valid password / one-time password / recovery token of that account")
			}
		case "POST /2fa/totp/validate":
			verif.Assert(a != nil, "session issued to a stored account")
			verif.Assert(verif.And(preTPHas, preTP == postUID), "2FA step completes only the login pending in this session")
		case "POST /2fa/sms/validate":
			verif.Assert(a != nil, "session issued to a stored account")
			verif.Assert(verif.And(preSPHas, preSP == postUID), "2FA step completes only the login pending in this session")
		case "POST /register":
			verif.Assert(a == nil, "registration logs in only the account it just created")
			verif.Assert(postUID == v.PID, "registration logs in the submitted identifier")
		case "GET /oauth2/callback/prov":
			verif.Assert(verif.And(preStateHas, form["state"] == preState), "OAuth2 callback logs in only with the session's own state")
			verif.Assert(form["error"] == "", "a provider-reported error logs nobody in")
		}
	}
	loginRoute := false
	switch route {
	case "POST /login", "POST /otp/login", "POST /recover/end", "POST /2fa/totp/validate", "POST /2fa/sms/validate", "POST /register", "GET /oauth2/callback/prov":
		loginRoute = true
	}
	verif.Assert(verif.Or(!issued, loginRoute), "only the login routes ever change the session's user identity")
	// pending second-factor logins are parked only by a valid primary credential
	for _, key := range []string{totp2fa.SessionTOTPPendingPID, sms2fa.SessionSMSPendingPID} {
		pre, preH := f.preS.Lookup2(key)
		post, postH := S.Lookup2(key)
		parked := verif.And(postH, verif.Or(!preH, post != pre))
		if parked {
			verif.Reach("login-parked")
			a := f.account(post)
			verif.Assert(a != nil, "pending login names a stored account")
			if a != nil {
				verif.Assert(f.validPrimary(route, a, v), "a login is parked as pending only with a valid primary credential of that account")
			}
		}
	}
}

// C01_RememberMiddleware: remember.Middleware from an arbitrary state and cookie, with up to
// one storage call failing (a backend error must never stand in for a valid token).
func C01_RememberMiddleware() {
	verif.ReplayInInterpreter()
	f := newFlow(fullOpts())
	f.injectFaults(&faultPlan{max: 1})
	cookie, hasCookie := f.preC.Lookup2(authboss.CookieRemember)
	preUID, preHas := f.preS.Lookup2(authboss.SessionKey)
	next := http.HandlerFunc(func(wr http.ResponseWriter, r *http.Request) { wr.WriteHeader(200) })
	_, panicked := f.serveHandler(remember.Middleware(f.w.AB)(next), "GET", "/")
	if panicked {
		return
	}
	postUID, postHas := f.w.Session.Lookup2(authboss.SessionKey)
	issued := verif.And(postHas, verif.Or(!preHas, postUID != preUID))
	verif.Witness(issued, "remember-cookie-issues-a-session")
	if issued {
		a := f.account(postUID)
		verif.Assert(a != nil, "session issued to a stored account")
		if a != nil {
			raw, derr := base64.URLEncoding.DecodeString(cookie)
			verif.Assert(verif.And(hasCookie, derr == nil), "session issued only for a decodable remember cookie")
			if derr == nil {
				verif.Assert(string(raw) == a.rmRaw[0], "session issued only for an unconsumed remember token of that account")
			}
			verif.Assert(!f.w.Store.HasSerial(a.rmSerial[0]), "the presented token is consumed")
			_, half := f.w.Session.Lookup2(authboss.SessionHalfAuthKey)
			verif.Assert(half, "remember logins are marked half-authenticated")
		}
		verif.Assert(!preHas, "nothing happens when somebody is already logged in")
	}
}

// C01_OTPUnconsumed: "an unconsumed one-time password" — a one-time password that already
// logged somebody in does not do so again (the exploration of C12_OTPLogin).
func C01_OTPUnconsumed() { C12_OTPLogin() }

package props

import (
	"context"
	"net/http"
	"path"
	"strings"

	"verifharness/verif"
	"verifharness/world"

	"github.com/volatiletech/authboss/v3"
)

func init() {
	register("C08_Admission", C08_Admission)
	register("C08_RedirectTarget", C08_RedirectTarget)
}

// C08_Admission: every combination of requirement bits, refusal mode, mount-path setting, with
// a symbolic session (uid / halfauth / twofactor), a store that finds the user, does not, or
// fails, and the user optionally pre-loaded in the context.
func C08_Admission() {
	w := world.New()
	reqs := authboss.MWRequirements(verif.Choice("reqs", 4))
	fail := authboss.MWRespondOnFailure(verif.Choice("fail", 3))
	mountPathed := verif.Choice("mountPathed", 2) == 1
	if verif.Choice("mount", 2) == 1 {
		w.AB.Config.Paths.Mount = ""
	}
	uid := verif.String("uid", 3)
	hasUID := verif.Bool("has_uid")
	hasHalf := verif.Bool("has_halfauth")
	has2FA := verif.Bool("has_twofactor")
	w.Session.SetP(authboss.SessionKey, uid, hasUID)
	// the marks count by presence: whatever value the session store holds for them
	w.Session.SetP(authboss.SessionHalfAuthKey, verif.String("halfauth", 4), hasHalf)
	w.Session.SetP(authboss.Session2FA, verif.String("twofactor", 4), has2FA)
	w.Store.Users = []world.Record{world.NewUser("u1", "u1@x")}
	storeFails := verif.Bool("store_fails")
	w.Store.Fault = func(site string) bool { return storeFails }
	ran := false
	var seenUser authboss.User
	next := http.HandlerFunc(func(wr http.ResponseWriter, r *http.Request) {
		ran = true
		seenUser, _ = r.Context().Value(authboss.CTXKeyUser).(authboss.User)
		wr.WriteHeader(200)
	})
	h := authboss.MountedMiddleware2(w.AB, mountPathed, reqs, fail)(next)
	rec := w.Serve(h, world.Request("GET", "/x", ""))

	known := verif.And(hasUID, uid == "u1")
	reqOK := verif.And(verif.Or(reqs&authboss.RequireFullAuth == 0, !hasHalf), verif.Or(reqs&authboss.Require2FA == 0, has2FA))
	admit := verif.And(verif.And(known, !storeFails), reqOK)
	verif.Witness(admit, "admitted")
	verif.Witness(!admit, "refused")
	verif.Assert(ran == admit, "the wrapped handler runs exactly when the session names a loadable user and every requirement holds")
	if ran {
		verif.Assert(seenUser != nil && seenUser.GetPID() == "u1", "the admitted request carries the loaded user")
	}
	if !ran {
		storeError := verif.And(verif.And(reqOK, verif.And(hasUID, uid != "")), storeFails)
		if storeError {
			verif.Assert(rec.Code == 500, "a storage error yields 500")
		} else {
			switch fail {
			case authboss.RespondNotFound:
				verif.Assert(rec.Code == 404, "refusal mode NotFound answers 404")
			case authboss.RespondUnauthorized:
				verif.Assert(rec.Code == 401, "refusal mode Unauthorized answers 401")
			case authboss.RespondRedirect:
				verif.Assert(w.Redirector.Count == 1 && strings.HasPrefix(w.Redirector.Last.Redirect.RedirectPath, path.Join(w.AB.Config.Paths.Mount, "/login?redir=")), "refusal mode Redirect sends the browser to the login page")
			}
		}
	}
	_ = context.Background
}

// C08_RedirectTarget: the login redirect carries the original path (mount-joined when
// mountPathed) and query, for arbitrary short paths and queries.
func C08_RedirectTarget() {
	w := world.New()
	mountPathed := verif.Choice("mountPathed", 2) == 1
	if verif.Choice("mount", 2) == 1 {
		w.AB.Config.Paths.Mount = ""
	}
	mount := w.AB.Config.Paths.Mount
	p := "/" + verif.Chars("path", verif.Choice("pathLen", verif.Bound(2, 3)))
	q := verif.Chars("query", verif.Choice("queryLen", verif.Bound(2, 3)))
	next := http.HandlerFunc(func(wr http.ResponseWriter, r *http.Request) { wr.WriteHeader(200) })
	h := authboss.MountedMiddleware2(w.AB, mountPathed, authboss.RequireNone, authboss.RespondRedirect)(next)
	w.Serve(h, world.Request("GET", p, q))
	verif.Assert(w.Redirector.Count == 1, "an anonymous request is redirected")
	// reference: what "carrying the original path and query" means
	want := p
	if mountPathed && mount != "" {
		want = path.Join(mount, p)
	}
	if q != "" {
		want += "?" + q
	}
	got := w.Redirector.Last.Redirect.RedirectPath
	verif.Assert(got == path.Join(mount, "/login")+"?redir="+stubsQueryEscape(want), "the login redirect carries the original path and query")
}

package props

import _ "verifharness/stubs"

// Entries maps harness entry names to functions (used by the native replay test).
var Entries = map[string]func(){}

func register(name string, f func()) { Entries[name] = f }

package props

import (
	"io"
	"net/http"

	"verifharness/verif"
	"verifharness/world"

	"github.com/volatiletech/authboss/v3"
)

func init() {
	register("C11_Programs", C11_Programs)
	register("C11_StoreFailure", C11_StoreFailure)
	register("C11_StreamedBody", C11_StreamedBody)
}

type underWrap struct{ http.ResponseWriter }

func (u underWrap) UnderlyingResponseWriter() http.ResponseWriter { return u.ResponseWriter }

type unwrapWrap struct{ http.ResponseWriter }

func (u unwrapWrap) Unwrap() http.ResponseWriter { return u.ResponseWriter }

type ev = authboss.ClientStateEvent

func sameEvents(a, b []ev) bool {
	if len(a) != len(b) {
		return false
	}
	ok := true
	for i := range a {
		ok = verif.And(ok, verif.And(a[i].Kind == b[i].Kind, verif.And(a[i].Key == b[i].Key, a[i].Value == b[i].Value)))
	}
	return ok
}

// C11_Programs: every handler program of up to k operations (k = 3 quick / 4 thorough) over
// {put/del/delall session, put/del cookie, header set, WriteHeader, Write}, with symbolic keys,
// values and body bytes, under 0-2 response-writer wrappers of either unwrap flavour.
func C11_Programs() {
	w := world.New()
	var trace []string
	w.Session.Name, w.Session.Trace = "session", &trace
	w.Cookies.Name, w.Cookies.Trace = "cookie", &trace
	w.Session.Set("k0", verif.String("initS", 3))
	w.Cookies.Set("k0", verif.String("initC", 3))
	initS, _ := w.Session.Lookup("k0")
	initC, _ := w.Cookies.Lookup("k0")

	k := verif.Bound(3, 4)
	wrapKind := verif.Choice("wrappers", verif.Bound(3, 7))

	var wantS, wantC []ev // events queued before the first write, in program order
	wrote := false
	h := http.HandlerFunc(func(rw http.ResponseWriter, r *http.Request) {
		var wr http.ResponseWriter = rw
		switch wrapKind {
		case 1:
			wr = underWrap{wr}
		case 2:
			wr = unwrapWrap{wr}
		case 3:
			wr = underWrap{unwrapWrap{wr}}
		case 4:
			wr = unwrapWrap{underWrap{wr}}
		case 5:
			wr = underWrap{underWrap{wr}}
		case 6:
			wr = unwrapWrap{unwrapWrap{wr}}
		}
		for i := 0; i < k; i++ {
			key := verif.String("key", 2)
			val := verif.String("val", 2)
			switch verif.Choice("op", 8) {
			case 0:
				authboss.PutSession(wr, key, val)
				if !wrote {
					wantS = append(wantS, ev{Kind: authboss.ClientStateEventPut, Key: key, Value: val})
				}
			case 1:
				authboss.DelSession(wr, key)
				if !wrote {
					wantS = append(wantS, ev{Kind: authboss.ClientStateEventDel, Key: key})
				}
			case 2:
				authboss.DelAllSession(wr, []string{key, "w2"})
				if !wrote {
					wantS = append(wantS, ev{Kind: authboss.ClientStateEventDelAll, Key: key + ",w2"})
				}
			case 3:
				authboss.PutCookie(wr, key, val)
				if !wrote {
					wantC = append(wantC, ev{Kind: authboss.ClientStateEventPut, Key: key, Value: val})
				}
			case 4:
				authboss.DelCookie(wr, key)
				if !wrote {
					wantC = append(wantC, ev{Kind: authboss.ClientStateEventDel, Key: key})
				}
			case 5:
				wr.Header().Set("X-A", val)
			case 6:
				wr.WriteHeader(200)
				wrote = true
			case 7:
				_, err := wr.Write([]byte(val)) // val may be empty: a zero-length first write
				verif.Assert(err == nil, "Write returns no error")
				wrote = true
			}
			// reads keep returning what was read at the start of the request
			gs, _ := authboss.GetSession(r, "k0")
			gc, _ := authboss.GetCookie(r, "k0")
			verif.Assert(gs == initS && gc == initC, "state read at request start is stable for the whole request")
		}
	})
	rec := world.NewRecorder()
	rec.Trace = &trace
	w.AB.LoadClientStateMiddleware(h).ServeHTTP(rec, world.Request("GET", "/", ""))

	verif.Witness(wrote && len(wantS) > 0 && len(wantC) > 0, "both-stores-written")
	if !wrote {
		verif.Assert(w.Session.WriteCalls == 0 && w.Cookies.WriteCalls == 0, "nothing is delivered before the handler writes")
		return
	}
	wantSCalls, wantCCalls := 0, 0
	if len(wantS) > 0 {
		wantSCalls = 1
	}
	if len(wantC) > 0 {
		wantCCalls = 1
	}
	verif.Assert(w.Session.WriteCalls == wantSCalls, "session store receives exactly one delivery iff it has pending changes")
	verif.Assert(w.Cookies.WriteCalls == wantCCalls, "cookie store receives exactly one delivery iff it has pending changes")
	verif.Assert(sameEvents(w.Session.Events, wantS), "session store receives exactly the session changes made before the first write, in order")
	verif.Assert(sameEvents(w.Cookies.Events, wantC), "cookie store receives exactly the cookie changes made before the first write, in order")
	// order: all deliveries precede the first call on the underlying writer
	seenUnderlying := false
	orderOK := true
	for _, t := range trace {
		if t == "WriteHeader" || t == "Write" {
			seenUnderlying = true
		} else if seenUnderlying {
			orderOK = false
		}
	}
	verif.Assert(orderOK, "client state is delivered before any header or body byte is released")
}

// C11_StoreFailure: "nothing is delivered twice however many times the handler writes", when a
// client-state store refuses its delivery: every program of 4 operations over {put session, put
// cookie, WriteHeader, Write} with the session store or the cookie store failing. The failed
// flush is not repeated by later writes: each store sees at most one delivery, a store that
// accepted its delivery got exactly the changes queued before the first write, and Write
// reports the failure.
func C11_StoreFailure() {
	w := world.New()
	failSession := verif.Choice("failing-store", 2) == 0
	w.Session.FailWrite, w.Cookies.FailWrite = failSession, !failSession
	var wantS, wantC []ev
	wrote := false
	firstWriteErr := false
	h := http.HandlerFunc(func(wr http.ResponseWriter, r *http.Request) {
		for i := 0; i < 4; i++ {
			key := verif.String("key", 2)
			val := verif.String("val", 2)
			switch verif.Choice("op", 4) {
			case 0:
				authboss.PutSession(wr, key, val)
				if !wrote {
					wantS = append(wantS, ev{Kind: authboss.ClientStateEventPut, Key: key, Value: val})
				}
			case 1:
				authboss.PutCookie(wr, key, val)
				if !wrote {
					wantC = append(wantC, ev{Kind: authboss.ClientStateEventPut, Key: key, Value: val})
				}
			case 2:
				wr.WriteHeader(200) // panics when the flush fails (recovered below)
				wrote = true
			case 3:
				_, err := wr.Write([]byte(val))
				if !wrote {
					firstWriteErr = err != nil
				}
				wrote = true
			}
		}
	})
	rec := world.NewRecorder()
	panicked, _ := world.Try(func() {
		w.AB.LoadClientStateMiddleware(h).ServeHTTP(rec, world.Request("GET", "/", ""))
	})
	verif.Witness(panicked, "WriteHeader-panics-on-a-failed-flush")
	verif.Witness(firstWriteErr, "Write-reports-a-failed-flush")
	verif.Assert(w.Session.WriteCalls <= 1, "the session store sees at most one delivery")
	verif.Assert(w.Cookies.WriteCalls <= 1, "the cookie store sees at most one delivery")
	if failSession {
		verif.Assert(len(w.Session.Events) == 0, "a refused delivery changes nothing")
		if len(wantS) > 0 {
			verif.Assert(len(w.Cookies.Events) == 0, "after the session store refused, nothing else is delivered")
		} else if w.Cookies.WriteCalls == 1 {
			verif.Assert(sameEvents(w.Cookies.Events, wantC), "the cookie store that accepted its delivery got exactly the changes made before the first write")
		}
	} else if w.Session.WriteCalls == 1 {
		verif.Assert(sameEvents(w.Session.Events, wantS), "the session store that accepted its delivery got exactly the changes made before the first write")
	}
	failing := verif.Or(verif.And(failSession, len(wantS) > 0), verif.And(!failSession, len(wantC) > 0))
	if wrote && !panicked && failing {
		verif.Assert(firstWriteErr, "the first Write reports the failed delivery")
	}
}

// emptyReader is a body source without WriteTo (so io.Copy looks at the destination).
type emptyReader struct{}

func (emptyReader) Read(p []byte) (int, error) { return 0, io.EOF }

// C11_StreamedBody: "before any header or body byte is released", when the handler streams its
// body: io.Copy hands the copy to the destination's ReadFrom if it has one (net/http's response
// writer does, and so does the recording writer here). Every program of 3 operations over {put
// session, put cookie, streamed copy, Write}: whichever way the first body bytes leave -
// through Write or through an optional interface the writer may offer - the queued client
// state is delivered first, exactly once.
func C11_StreamedBody() {
	w := world.New()
	var trace []string
	w.Session.Name, w.Session.Trace = "session", &trace
	w.Cookies.Name, w.Cookies.Trace = "cookie", &trace
	var wantS, wantC []ev
	wrote := false
	h := http.HandlerFunc(func(wr http.ResponseWriter, r *http.Request) {
		for i := 0; i < 3; i++ {
			key := verif.String("key", 2)
			val := verif.String("val", 2)
			switch verif.Choice("op", 4) {
			case 0:
				authboss.PutSession(wr, key, val)
				if !wrote {
					wantS = append(wantS, ev{Kind: authboss.ClientStateEventPut, Key: key, Value: val})
				}
			case 1:
				authboss.PutCookie(wr, key, val)
				if !wrote {
					wantC = append(wantC, ev{Kind: authboss.ClientStateEventPut, Key: key, Value: val})
				}
			case 2:
				// io.Copy(wr, src): the dispatch io.Copy performs, spelled out
				if rf, ok := wr.(io.ReaderFrom); ok {
					rf.ReadFrom(emptyReader{})
				} else {
					wr.Write(nil)
				}
				wrote = true
			case 3:
				wr.Write([]byte(val))
				wrote = true
			}
		}
	})
	rec := world.NewRecorder()
	rec.Trace = &trace
	w.AB.LoadClientStateMiddleware(h).ServeHTTP(rec, world.Request("GET", "/", ""))
	verif.Witness(wrote && len(wantS) > 0 && len(wantC) > 0, "both-stores-written")
	if !wrote {
		return
	}
	verif.Assert(sameEvents(w.Session.Events, wantS), "session store receives exactly the session changes made before the first body byte, in order")
	verif.Assert(sameEvents(w.Cookies.Events, wantC), "cookie store receives exactly the cookie changes made before the first body byte, in order")
	seenUnderlying, orderOK := false, true
	for _, t := range trace {
		if t == "WriteHeader" || t == "Write" {
			seenUnderlying = true
		} else if seenUnderlying {
			orderOK = false
		}
	}
	verif.Assert(orderOK, "client state is delivered before any body byte is released, also when the body is streamed")
}

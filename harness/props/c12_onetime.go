package props

import (
	"net/http"
	"strings"

	"verifharness/stubs"
	"verifharness/verif"
	"verifharness/world"

	"github.com/volatiletech/authboss/v3"
	"github.com/volatiletech/authboss/v3/otp/twofactor/sms2fa"
	"github.com/volatiletech/authboss/v3/otp/twofactor/totp2fa"
)

func init() {
	register("C12_OTPLogin", C12_OTPLogin)
	register("C12_RecoveryCodeLogin", C12_RecoveryCodeLogin)
	register("C12_SMSCodeLogin", C12_SMSCodeLogin)
	register("C12_MaxFiveOTPs", C12_MaxFiveOTPs)
	register("C12_TOTPReplayGuard", C12_TOTPReplayGuard)
	register("C12_TOTPConfirmRecordsCode", C12_TOTPConfirmRecordsCode)
}

func noGuards() flowOpts {
	// no confirm/lock: nothing intercepts a login, so consumption and issue are both visible
	return flowOpts{modules: []string{"auth", "logout", "otp", "recover", "register", "remember"}, totp: true, sms: true, recovery: true}
}

// issuedTo reports whether the response made the session belong to pid (and did not before).
func (f *flow) issuedTo(pid string) bool {
	preUID, preHas := f.preS.Lookup2(authboss.SessionKey)
	postUID, postHas := f.w.Session.Lookup2(authboss.SessionKey)
	return verif.And(verif.And(postHas, postUID == pid), verif.Or(!preHas, preUID != pid))
}

// resetBrowser puts the browser back to its pre-request state (a replay from the same or
// another browser holding the same session), keeping the store as the request left it.
func (f *flow) resetBrowser() {
	f.w.Session = f.preS.Snapshot()
	f.w.Cookies = f.preC.Snapshot()
	f.w.AB.Config.Storage.SessionState = f.w.Session
	f.w.AB.Config.Storage.CookieState = f.w.Cookies
}

// C12_OTPLogin: a one-time password that logs in is removed from storage before the session is
// issued, the other entries stay, and replaying the request fails.
func C12_OTPLogin() {
	verif.ReplayInInterpreter()
	o := noGuards()
	o.write500 = verif.Choice("write500", 2) == 1
	f := newFlow(o)
	v := symbolicValues()
	verif.Assume(v.PID == pid0) // account 0 holds two one-time passwords
	a := f.a[0]
	_, panicked, _ := f.serve("POST /otp/login", v, nil)
	if panicked {
		return
	}
	issued := f.issuedTo(pid0)
	verif.Witness(issued, "otp-login-succeeds")
	if issued {
		used := verif.IteInt(v.Password == a.otps[0], 0, 1)
		verif.Witness(used == 0, "first-entry-used")
		verif.Witness(used == 1, "last-entry-used")
		post := f.w.Store.Get(pid0)
		other := verif.Ite(used == 0, a.otps[1], a.otps[0])
		verif.Assert(post.OTPs == hashOTP(other), "the used one-time password is removed from storage and the unused one kept")
		// replay of the same request with the store as it is now
		f.resetBrowser()
		_, panicked, _ = f.serve("POST /otp/login", v, nil)
		verif.Assert(!panicked, "replay does not panic")
		verif.Assert(!f.issuedTo(pid0), "replaying a used one-time password fails")
		post2 := f.w.Store.Get(pid0)
		verif.Assert(post2.OTPs == hashOTP(other), "a rejected replay leaves the remaining one-time password usable")
	}
	if verif.And(v.Password != a.otps[0], v.Password != a.otps[1]) {
		post := f.w.Store.Get(pid0)
		verif.Assert(!issued, "a value that is not a stored one-time password never logs in")
		verif.Assert(post.OTPs == a.u.OTPs, "a rejected one-time password consumes nothing")
	}
}

// C12_RecoveryCodeLogin: a recovery code completes a pending login at most once (TOTP and SMS
// validate routes, both user types).
func C12_RecoveryCodeLogin() {
	verif.ReplayInInterpreter()
	o := noGuards()
	o.userPlain = verif.Choice("userType", 2) == 1
	o.write500 = verif.Choice("write500", 2) == 1
	f := newFlow(o)
	route, pendingKey := "POST /2fa/totp/validate", totp2fa.SessionTOTPPendingPID
	if verif.Choice("kind", 2) == 1 {
		route, pendingKey = "POST /2fa/sms/validate", sms2fa.SessionSMSPendingPID
	}
	v := symbolicValues()
	verif.Assume(v.RecoveryCode != "")
	a := f.a[0]
	pend, has := f.preS.Lookup2(pendingKey)
	verif.Assume(verif.And(has, pend == pid0))
	verif.Assume(!f.preS.Has(authboss.SessionKey))
	_, panicked, _ := f.serve(route, v, nil)
	if panicked {
		return
	}
	issued := f.issuedTo(pid0)
	verif.Witness(issued, "recovery-code-login-succeeds")
	post := f.w.Store.Get(pid0)
	if issued {
		verif.Assert(verif.And(a.hasCodes, verif.Or(v.RecoveryCode == a.codes[0], v.RecoveryCode == a.codes[1])), "only a stored recovery code completes the login")
		used := verif.IteInt(v.RecoveryCode == a.codes[0], 0, 1)
		remaining := strings.Split(a.u.RecoveryCodes, ",")[1-used]
		verif.Assert(post.RecoveryCodes == remaining, "the used recovery code is removed from storage and the other kept")
		f.resetBrowser()
		_, panicked, _ = f.serve(route, v, nil)
		verif.Assert(!panicked, "replay does not panic")
		verif.Assert(!f.issuedTo(pid0), "replaying a used recovery code fails")
	} else {
		verif.Assert(post.RecoveryCodes == a.u.RecoveryCodes, "a rejected recovery code consumes nothing")
	}
	_ = stubs.BcMatches
}

// C12_SMSCodeLogin: an SMS code completes a pending login once; the response deletes it.
func C12_SMSCodeLogin() {
	verif.ReplayInInterpreter()
	o := noGuards()
	o.write500 = true // a failing hook ends in an error page (which releases the queued session changes)
	f := newFlow(o)
	v := symbolicValues()
	verif.Assume(v.RecoveryCode == "")
	pend, has := f.preS.Lookup2(sms2fa.SessionSMSPendingPID)
	verif.Assume(verif.And(has, pend == pid0))
	verif.Assume(!f.preS.Has(authboss.SessionKey))
	// an application hook after the login that may take over the response or fail
	hook := verif.Choice("app-after-auth-hook", 3)
	f.w.AB.Events.After(authboss.EventAuth, func(wr http.ResponseWriter, r *http.Request, handled bool) (bool, error) {
		switch hook {
		case 1:
			wr.WriteHeader(200) // the application answers the login itself
			return true, nil
		case 2:
			return false, world.ErrInjected
		}
		return false, nil
	})
	_, panicked, _ := f.serve("POST /2fa/sms/validate", v, nil)
	if panicked {
		return
	}
	issued := f.issuedTo(pid0)
	verif.Witness(issued, "sms-code-login-succeeds")
	if issued {
		sec, hasSec := f.preS.Lookup2(sms2fa.SessionSMSSecret)
		verif.Assert(verif.And(hasSec, verif.And(v.Code != "", v.Code == sec)), "only the code held by the session completes the login")
		verif.Assert(!f.w.Session.Has(sms2fa.SessionSMSSecret), "the accepted SMS code is deleted from the session")
		verif.Assert(!f.w.Session.Has(sms2fa.SessionSMSPendingPID), "the pending marker is deleted")
		// the same browser submits the same code again: no code is held any more
		f.w.Session.Del(authboss.SessionKey)
		f.preS = f.w.Session.Snapshot()
		_, panicked, _ = f.serve("POST /2fa/sms/validate", v, nil)
		verif.Assert(!f.issuedTo(pid0), "the same SMS code does not work twice")
	}
}

// C12_MaxFiveOTPs: /otp/add never leaves more than five one-time passwords.
func C12_MaxFiveOTPs() {
	verif.ReplayInInterpreter()
	o := noGuards()
	f := newFlow(o)
	n := verif.Choice("existing", 7) // 0..6 stored entries before the request
	var hs []string
	for k := 0; k < n; k++ {
		hs = append(hs, hashOTP(verif.String("have"+idx(k), 2)))
	}
	f.w.Store.Get(pid0).OTPs = strings.Join(hs, ",")
	f.w.Session.Set(authboss.SessionKey, pid0)
	f.w.Session.Del(authboss.SessionHalfAuthKey)
	_, panicked, _ := f.serve("POST /otp/add", symbolicValues(), nil)
	verif.Assert(!panicked, "no panic")
	post := f.w.Store.Get(pid0).OTPs
	cnt := 0
	if post != "" {
		cnt = strings.Count(post, ",") + 1
	}
	verif.Witness(cnt == 5, "five-reached")
	if n <= 5 {
		verif.Assert(cnt <= 5, "at most five one-time passwords exist per account")
	}
	if n < 5 {
		verif.Assert(cnt == n+1, "below the limit one entry is added")
	}
	if n >= 5 {
		verif.Assert(cnt == n, "at the limit nothing is added")
	}
}

// C12_TOTPReplayGuard: with replay protection (UserOneTime) the last accepted code is rejected,
// an accepted code is saved as the last code.
func C12_TOTPReplayGuard() {
	verif.ReplayInInterpreter()
	o := noGuards()
	f := newFlow(o)
	v := symbolicValues()
	verif.Assume(v.RecoveryCode == "")
	a := f.a[0]
	pend, has := f.preS.Lookup2(totp2fa.SessionTOTPPendingPID)
	verif.Assume(verif.And(has, pend == pid0))
	verif.Assume(!f.preS.Has(authboss.SessionKey))
	_, panicked, _ := f.serve("POST /2fa/totp/validate", v, nil)
	if panicked {
		return
	}
	issued := f.issuedTo(pid0)
	verif.Witness(issued, "totp-login-succeeds")
	if v.Code == a.lastCode {
		verif.Assert(!issued, "the same TOTP code is not accepted twice in a row")
	}
	if issued {
		rec := f.w.Store.GetRec(pid0)
		lc := rec.(interface{ GetTOTPLastCode() string }).GetTOTPLastCode()
		verif.Assert(lc == v.Code, "an accepted TOTP code is recorded as the last code")
	}
}

// C12_TOTPConfirmRecordsCode: "the same TOTP code is not accepted twice in a row" starts at
// enrolment: the code that confirms a TOTP enrolment is recorded as the account's last code
// (for user types with replay protection), so that it cannot complete a login right afterwards
// (C12_TOTPReplayGuard: the last code is refused).
func C12_TOTPConfirmRecordsCode() {
	verif.ReplayInInterpreter()
	o := noGuards()
	f := newFlow(o)
	a := f.a[0]
	f.w.Session.Set(authboss.SessionKey, a.pid)
	f.w.Session.Del(authboss.SessionHalfAuthKey)
	f.preS = f.w.Session.Snapshot()
	v := symbolicValues()
	_, panicked, _ := f.serve("POST /2fa/totp/confirm", v, nil)
	if panicked || len(f.w.ErrH.Errs) > 0 {
		return
	}
	post := f.w.Store.Get(a.pid)
	sec, has := f.preS.Lookup2(totp2fa.SessionTOTPSecret)
	enrolled := verif.And(verif.And(has, post.TOTPSecretKey == sec), post.TOTPSecretKey != a.u.TOTPSecretKey)
	verif.Witness(enrolled, "totp-enrolled")
	if enrolled {
		rec := f.w.Store.GetRec(a.pid)
		lc := rec.(interface{ GetTOTPLastCode() string }).GetTOTPLastCode()
		verif.Assert(lc == v.Code, "the code that confirmed the enrolment is recorded as the last code")
	}
}

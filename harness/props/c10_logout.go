package props

import (
	"encoding/base64"
	"net/http"

	"verifharness/verif"
	"verifharness/world"

	"github.com/volatiletech/authboss/v3"
	"github.com/volatiletech/authboss/v3/defaults"
	"github.com/volatiletech/authboss/v3/remember"
)

func init() {
	register("C10_Logout", C10_Logout)
	register("C10_InvalidMethod", C10_InvalidMethod)
	register("C10_LogoutBehindRemember", C10_LogoutBehindRemember)
	register("C10_ShippedRouterMethod", C10_ShippedRouterMethod)
}

// C10_Logout: the logout handler under each configured method, from an arbitrary session over
// every key the library uses plus application keys, with and without a whitelist.
func C10_Logout() {
	verif.ReplayInInterpreter()
	methods := []string{"GET", "POST", "DELETE"}
	method := methods[verif.Choice("method", 3)]
	o := fullOpts()
	f := newFlowWith(o, func(w *world.World) {
		w.AB.Config.Modules.LogoutMethod = method
		if verif.Choice("whitelist", 2) == 1 {
			w.AB.Config.Storage.SessionStateWhitelistKeys = []string{"app_w", "app_w2"}
		}
	})
	white := len(f.w.AB.Config.Storage.SessionStateWhitelistKeys) > 0
	// an application hook after the logout that may answer the request itself
	if verif.Choice("app-after-logout-hook", 2) == 1 {
		f.w.AB.Events.After(authboss.EventLogout, func(wr http.ResponseWriter, r *http.Request, handled bool) (bool, error) {
			wr.WriteHeader(200)
			return true, nil
		})
	}
	// application keys
	for _, k := range []string{"app_w", "app_x"} {
		f.w.Session.SetP(k, verif.String("S_"+k, 3), verif.Bool("has_"+k))
	}
	f.preS = f.w.Session.Snapshot()
	// only the configured method is routed
	n := 0
	for _, m := range methods {
		if f.w.Route(m+" /logout") != nil {
			n++
			verif.Assert(m == method, "logout is registered for the configured method only")
		}
	}
	verif.Assert(n == 1, "exactly one logout route is registered")
	_, panicked, _ := f.serve(method+" /logout", symbolicValues(), nil)
	if panicked {
		return
	}
	if len(f.w.ErrH.Errs) > 0 {
		return // a failing event hook is C18's subject
	}
	verif.Reach("logout-completed")
	keys := append(append([]string{}, sessionKeys...), "app_w", "app_x")
	for _, k := range keys {
		_, preHas := f.preS.Lookup2(k)
		pv, _ := f.preS.Lookup2(k)
		v, has := f.w.Session.Lookup2(k)
		if white && k == "app_w" {
			verif.Assert(has == preHas, "whitelisted keys are kept")
			verif.Assert(verif.Implies(has, v == pv), "whitelisted values are unchanged")
		} else if k == authboss.FlashSuccessKey {
			// the logout response itself sets the "logged out" flash message
		} else {
			verif.Assert(!has, "after logout the session holds no non-whitelisted value")
		}
	}
	verif.Assert(!f.w.Cookies.Has(authboss.CookieRemember), "after logout the remember cookie is removed")

	// the browser's next request is unauthenticated
	ran := false
	next := http.HandlerFunc(func(wr http.ResponseWriter, r *http.Request) { ran = true; wr.WriteHeader(200) })
	mw := authboss.Middleware2(f.w.AB, authboss.RequireNone, authboss.RespondUnauthorized)
	f.serveHandler(mw(next), "GET", "/private")
	verif.Assert(!ran, "after logout the auth middleware refuses the browser")
}

// C10_InvalidMethod: an unknown LogoutMethod makes Init fail instead of registering a route.
func C10_InvalidMethod() {
	w := world.New()
	w.AB.Config.Modules.LogoutMethod = "PUT"
	err := w.AB.Init("logout")
	verif.Assert(err != nil, "Init rejects an invalid logout method")
	verif.Assert(len(w.Router.Order) == 0, "no route is registered for an invalid logout method")
}

// C10_LogoutBehindRemember: the usual stack — remember.Middleware in front of the logout route —
// with an arbitrary session and an arbitrary or genuine remember cookie: after the response the
// browser holds no session value and no remember cookie.
func C10_LogoutBehindRemember() {
	verif.ReplayInInterpreter()
	f := newFlow(fullOpts())
	if verif.Choice("cookie", 2) == 1 {
		f.w.Cookies.Set(authboss.CookieRemember, base64.URLEncoding.EncodeToString([]byte(f.a[0].rmRaw[0])))
	}
	f.preS, f.preC = f.w.Session.Snapshot(), f.w.Cookies.Snapshot()
	h := remember.Middleware(f.w.AB)(f.w.Route("DELETE /logout"))
	_, panicked := f.serveHandler(h, "DELETE", "/logout")
	if panicked || len(f.w.ErrH.Errs) > 0 {
		return
	}
	verif.Reach("logout-completed")
	for _, k := range sessionKeys {
		if k != authboss.FlashSuccessKey {
			verif.Assert(!f.w.Session.Has(k), "after logout behind the remember middleware the session holds no value")
		}
	}
	verif.Assert(!f.w.Cookies.Has(authboss.CookieRemember), "after logout behind the remember middleware no remember cookie is left")
	_ = http.StatusOK
}

// C10_ShippedRouterMethod: "logout only reacts to the configured HTTP method", through the
// shipped defaults.Router: a request to the logout path with any other method (HEAD, PUT,
// PATCH, OPTIONS and the two other configurable methods) leaves the session and the cookies
// exactly as they were.
func C10_ShippedRouterMethod() {
	verif.ReplayInInterpreter()
	methods := []string{"GET", "POST", "DELETE"}
	configured := methods[verif.Choice("configured", 3)]
	var router *defaults.Router
	f := newFlowWith(fullOpts(), func(w *world.World) {
		w.AB.Config.Modules.LogoutMethod = configured
		router = defaults.NewRouter()
		w.AB.Config.Core.Router = router
	})
	reqMethods := []string{"GET", "POST", "DELETE", "HEAD", "PUT", "PATCH", "OPTIONS"}
	method := reqMethods[verif.Choice("method", len(reqMethods))]
	sw, cw := f.w.Session.WriteCalls, f.w.Cookies.WriteCalls
	rec, panicked := f.serveHandler(router, method, "/logout")
	if panicked {
		return
	}
	if len(f.w.ErrH.Errs) > 0 {
		return
	}
	_, loggedIn := f.preS.Lookup2(authboss.SessionKey)
	_, stillIn := f.w.Session.Lookup2(authboss.SessionKey)
	verif.Witness(verif.And(loggedIn, !stillIn), "logged-out")
	if method != configured {
		verif.Reach("other-method")
		verif.Assert(f.w.Session.WriteCalls == sw && f.w.Cookies.WriteCalls == cw, "a request with another method than the configured one touches neither session nor cookies")
		verif.Assert(f.w.Redirector.Count == 0, "a request with another method than the configured one is not answered as a logout")
		verif.Assert(rec.Code == 404 || rec.Code == 405, "a request with another method than the configured one is refused")
	} else {
		verif.Assert(!stillIn, "the configured method logs out")
	}
}

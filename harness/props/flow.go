package props

// flow.go: the shared scaffold of the handler-level (one inductive step) harnesses: an
// authboss instance with a configurable module set plugged into the world model, a symbolic
// pre-state built constructively from ghost secrets (DESIGN.md 2.5, Appendix A), and helpers
// to serve one request on any registered route.

import (
	"context"
	"encoding/json"
	"crypto/sha512"
	"encoding/base64"
	"net/http"
	"net/url"
	"strconv"
	"strings"
	"time"

	"verifharness/stubs"
	"verifharness/verif"
	"verifharness/world"

	"github.com/volatiletech/authboss/v3"
	_ "github.com/volatiletech/authboss/v3/auth"
	_ "github.com/volatiletech/authboss/v3/confirm"
	"github.com/volatiletech/authboss/v3/expire"
	_ "github.com/volatiletech/authboss/v3/lock"
	_ "github.com/volatiletech/authboss/v3/logout"
	_ "github.com/volatiletech/authboss/v3/oauth2"
	_ "github.com/volatiletech/authboss/v3/otp"
	"github.com/volatiletech/authboss/v3/otp/twofactor"
	"github.com/volatiletech/authboss/v3/otp/twofactor/sms2fa"
	"github.com/volatiletech/authboss/v3/otp/twofactor/totp2fa"
	_ "github.com/volatiletech/authboss/v3/recover"
	_ "github.com/volatiletech/authboss/v3/register"
	_ "github.com/volatiletech/authboss/v3/remember"
	xoauth2 "golang.org/x/oauth2"
)

type flowOpts struct {
	modules      []string
	totp, sms    bool
	recovery     bool // twofactor.Recovery routes
	expire       bool
	emailAuth    bool // TwoFactorEmailAuthRequired
	recoverLogin bool // RecoverLoginAfterRecovery
	write500     bool // error handler answers 500 (flushes pending events)
	userPlain    bool
	lockAfter    int
}

// acct is the ghost knowledge about one stored account: the plaintext secrets the stored
// hashes were derived from.
type acct struct {
	pid           string
	u             *world.UserBase // the stored fields at pre-state (a copy)
	lastCode      string
	hasPw         bool
	pw            string
	otps          []string // plaintext one-time passwords whose hashes are stored
	codes         []string // plaintext recovery codes whose hashes are stored
	hasCodes      bool
	hasConfirmTok bool
	hasRecoverTok bool
	confirmTok    string   // raw 64-byte confirm token whose hashes are stored (if hasConfirmTok)
	recoverTok    string   // raw 64-byte recover token (if hasRecoverTok)
	rmRaw         []string // raw remember tokens (pid;nonce) whose hashes are in the table
	rmSerial      []int
}

type flow struct {
	w    *world.World
	o    flowOpts
	a    [2]*acct
	preS *world.Jar
	preC *world.Jar
	// ghost: the phone number the session's current sms_secret was texted to ("" = none)
	smsSentTo string
	vals      *world.Values
	now0      time.Time
	// urlQuery: parsed URL query parameters of the next request (r.URL.Query()); nil = none
	urlQuery map[string]string
}

const pidLen = 15 // long enough for both account identifiers

var allModules = []string{"auth", "confirm", "lock", "logout", "oauth2", "otp", "recover", "register", "remember"}

const (
	pid0 = "a@x"
	pid1 = "oauth2;;prov;;u" // an identifier of the shape the library builds for OAuth2 users
)

func hashOTP(otp string) string {
	s := sha512.Sum512([]byte(otp))
	return base64.StdEncoding.EncodeToString(s[:])
}

func tokenHashes(raw string) (selector, verifier string) {
	a := sha512.Sum512([]byte(raw[:32]))
	b := sha512.Sum512([]byte(raw[32:]))
	return base64.StdEncoding.EncodeToString(a[:]), base64.StdEncoding.EncodeToString(b[:])
}

func rememberHash(raw string) string {
	s := sha512.Sum512([]byte(raw))
	return base64.StdEncoding.EncodeToString(s[:])
}

func hasModule(ms []string, m string) bool {
	for _, x := range ms {
		if x == m {
			return true
		}
	}
	return false
}

// newFlow builds the instance and a symbolic pre-state.
func newFlow(o flowOpts) *flow { return newFlowWith(o, nil) }

// newFlowWith lets the harness adjust the configuration before the modules are loaded.
func newFlowWith(o flowOpts, configure func(w *world.World)) *flow {
	w := world.New()
	if configure != nil {
		configure(w)
	}
	f := &flow{w: w, o: o}
	c := &w.AB.Config
	c.Modules.RecoverLoginAfterRecovery = o.recoverLogin
	c.Modules.TwoFactorEmailAuthRequired = o.emailAuth
	if o.lockAfter > 0 {
		c.Modules.LockAfter = o.lockAfter
	}
	w.ErrH.Write500 = o.write500
	if hasModule(o.modules, "oauth2") {
		c.Modules.OAuth2Providers = map[string]authboss.OAuth2Provider{
			"prov": {
				OAuth2Config: &xoauth2.Config{ClientID: "id", ClientSecret: "sec"},
				FindUserDetails: func(ctx context.Context, cfg xoauth2.Config, tok *xoauth2.Token) (map[string]string, error) {
					if verif.Bool("oauth2_details_fail") {
						return nil, world.ErrInjected
					}
					return map[string]string{"uid": verif.String("oauth2_uid", 2), "email": "o@z"}, nil
				},
			},
		}
	}
	w.Init(o.modules...)
	if o.totp {
		t := &totp2fa.TOTP{Authboss: w.AB}
		if err := t.Setup(); err != nil {
			panic(err)
		}
	}
	if o.sms {
		s := &sms2fa.SMS{Authboss: w.AB, Sender: w.SMS}
		if err := s.Setup(); err != nil {
			panic(err)
		}
	}
	if o.recovery {
		r := &twofactor.Recovery{Authboss: w.AB}
		if err := r.Setup(); err != nil {
			panic(err)
		}
	}
	if o.expire {
		expire.Setup(w.AB)
	}
	f.now0 = time.Now().UTC()
	f.a[0] = f.symbolicAccount(0, pid0)
	f.a[1] = f.symbolicAccount(1, pid1)
	f.symbolicSession()
	f.preS = w.Session.Snapshot()
	f.preC = w.Cookies.Snapshot()
	return f
}

func idx(i int) string { return string(rune('0' + i)) }

// symbolicAccount: every security-relevant field symbolic; hashed fields are computed from
// ghost plaintexts (so that ground truth is available to the oracles and native replay needs
// no inversion of hashes).
func (f *flow) symbolicAccount(i int, pid string) *acct {
	n := idx(i)
	a := &acct{pid: pid}
	rec := world.NewUser(pid, "mail"+n+"@m")
	u := &rec.UserBase
	if pid == pid1 {
		u.OAuth2Provider, u.OAuth2UID = "prov", "u" // account 1 is an OAuth2 user (consistent with its pid)
	}
	a.hasPw = verif.Bool("hasPw" + n)
	a.pw = verif.String("pw"+n, verif.Bound(3, 5))
	u.Password = verif.Ite(a.hasPw, world.MakeHash(a.pw, "saltsal"+n), "")
	u.Confirmed = verif.Bool("confirmed" + n)
	u.Locked = verif.Time("locked" + n)
	u.AttemptCount = verif.Int("attempts"+n, 0, 5)
	u.LastAttempt = verif.Time("lastAttempt" + n)
	// two one-time passwords on account 0, one on account 1
	nOTP := 2 - i
	var hs []string
	for k := 0; k < nOTP; k++ {
		p := verif.String("otp"+n+"_"+idx(k), verif.Bound(3, 5))
		a.otps = append(a.otps, p)
		hs = append(hs, hashOTP(p))
	}
	if len(a.otps) == 2 {
		verif.Assume(a.otps[0] != a.otps[1]) // Inv A5: entries pairwise distinct
	}
	u.OTPs = strings.Join(hs, ",")
	// recovery codes: two on account 0, one on account 1
	var cs []string
	for k := 0; k < nOTP; k++ {
		p := verif.String("rcode"+n+"_"+idx(k), verif.Bound(3, 5))
		verif.Assume(verif.And(p != "", !strings.Contains(p, ","))) // generated codes are non-empty and comma-free
		a.codes = append(a.codes, p)
		cs = append(cs, stubs.BcMake(p, "bcsalt"+n+idx(k)))
	}
	if len(a.codes) == 2 {
		verif.Assume(a.codes[0] != a.codes[1])
	}
	a.hasCodes = verif.Bool("hasCodes" + n)
	u.RecoveryCodes = verif.Ite(a.hasCodes, strings.Join(cs, ","), "")
	u.TOTPSecretKey = verif.Ite(verif.Bool("hasTOTP"+n), "TOTPSECRET"+n, "")
	a.lastCode = verif.String("lastCode"+n, 3)
	rec.TOTPLastCode = a.lastCode
	u.SMSPhoneNumber = verif.Ite(verif.Bool("hasSMS"+n), "+100"+n, "")
	// confirm / recover tokens
	a.hasConfirmTok = verif.Bool("hasConfirmTok" + n)
	a.confirmTok = verif.StringN("confirmTok"+n, 64)
	cs1, cv1 := tokenHashes(a.confirmTok)
	u.ConfirmSelector, u.ConfirmVerifier = verif.Ite(a.hasConfirmTok, cs1, ""), verif.Ite(a.hasConfirmTok, cv1, "")
	a.hasRecoverTok = verif.Bool("hasRecoverTok" + n)
	a.recoverTok = verif.StringN("recoverTok"+n, 64)
	rs1, rv1 := tokenHashes(a.recoverTok)
	u.RecoverSelector, u.RecoverVerifier = verif.Ite(a.hasRecoverTok, rs1, ""), verif.Ite(a.hasRecoverTok, rv1, "")
	u.RecoverTokenExpiry = verif.Time("recoverExpiry" + n)
	// one remember token per account when the module is loaded
	if hasModule(f.o.modules, "remember") {
		raw := pid + ";" + verif.StringN("rmNonce"+n, 32)
		a.rmRaw = append(a.rmRaw, raw)
		a.rmSerial = append(a.rmSerial, f.w.Store.Seed(pid, rememberHash(raw)))
	}
	a.u = rec.Clone().B()
	if f.o.userPlain {
		f.w.Store.Plain = true
		f.w.Store.Users = append(f.w.Store.Users, &world.PlainUser{UserBase: *rec.Clone().B()})
	} else {
		f.w.Store.Users = append(f.w.Store.Users, rec)
	}
	return a
}

// sessionKeys: every key the library reads or writes in the session (discovered by hand from
// the constants in client_state.go, totp.go, sms.go; re-checked by the C10 key census).
var sessionKeys = []string{
	authboss.SessionKey, authboss.SessionHalfAuthKey, authboss.SessionLastAction, authboss.Session2FA,
	authboss.Session2FAAuthToken, authboss.Session2FAAuthed, authboss.SessionOAuth2State, authboss.SessionOAuth2Params,
	totp2fa.SessionTOTPSecret, totp2fa.SessionTOTPPendingPID,
	sms2fa.SessionSMSNumber, sms2fa.SessionSMSSecret, sms2fa.SessionSMSLast, sms2fa.SessionSMSPendingPID, sms2fa.SessionSMSSentTo,
	authboss.FlashSuccessKey, authboss.FlashErrorKey,
}

// symbolicSession: every library key has a symbolic presence bit and a symbolic value subject
// to the invariant clauses A2/A6 of DESIGN.md Appendix A.
func (f *flow) symbolicSession() {
	S := f.w.Session
	for _, k := range sessionKeys {
		var v string
		switch k {
		case authboss.SessionKey, totp2fa.SessionTOTPPendingPID, sms2fa.SessionSMSPendingPID:
			v = verif.String("S_"+k, pidLen) // a PID: one of the two accounts or an unknown one
		case authboss.SessionLastAction:
			v = verif.Time("S_last_action").Format(time.RFC3339)
		case sms2fa.SessionSMSLast:
			v = strconv.Itoa(verif.Int("S_sms_last", 946684800, 4102444800)) // Unix seconds, years 2000..2100 (A2)
		case authboss.SessionOAuth2Params:
			// A2: written by oauth2.Start only — the JSON encoding of the pass-along parameters
			enc, _ := json.Marshal(map[string]string{"redir": verif.String("S_oauth2_redir", 4), "rm": verif.String("S_oauth2_rm", 4)})
			v = string(enc)
		default:
			v = verif.String("S_"+k, 6)
		}
		S.SetP(k, v, verif.Bool("has_"+k))
	}
	uid, hasUID := S.Lookup2(authboss.SessionKey)
	verif.Assume(verif.Implies(hasUID, uid != ""))                                                               // A2
	verif.Assume(verif.Implies(S.Has(authboss.SessionHalfAuthKey), hasUID))                                      // A2
	verif.Assume(verif.Implies(S.Has(authboss.SessionOAuth2State), f.sval(authboss.SessionOAuth2State) != ""))   // A2
	verif.Assume(verif.Implies(S.Has(authboss.Session2FAAuthToken), f.sval(authboss.Session2FAAuthToken) != "")) // A7
	verif.Assume(verif.Implies(S.Has(sms2fa.SessionSMSNumber), f.sval(sms2fa.SessionSMSNumber) != ""))   // A2: only PostSetup writes it, never empty
	verif.Assume(verif.Implies(S.Has(totp2fa.SessionTOTPSecret), f.sval(totp2fa.SessionTOTPSecret) != "")) // A2: a generated key
	// A6: a present sms_secret was texted to some number (ghost), and the session records that
	// number next to it (SendCodeToUser writes both; checked as preserved by C13_AllRoutes)
	f.smsSentTo = verif.String("ghost_smsSentTo", 5)
	verif.Assume(verif.Implies(S.Has(sms2fa.SessionSMSSecret), verif.And(S.Has(sms2fa.SessionSMSSentTo), f.sval(sms2fa.SessionSMSSentTo) == f.smsSentTo)))
	// cookie jar: remember cookie arbitrary
	f.w.Cookies.SetP(authboss.CookieRemember, verif.String("K_rm", 8), verif.Bool("has_rm"))
}

// thoroughAxes widens a flow harness in the thorough tier: up to one failing backend call
// (storage, hasher, responder, redirector, mailer, SMS sender) and an application hook after
// EventAuth that does nothing, answers the request itself, or fails. The oracles of the entries
// that call it are statements about what must never happen, so they hold under both.
func (f *flow) thoroughAxes() {
	if !verif.Thorough() {
		return
	}
	if verif.Choice("thorough-fault", 2) == 1 {
		f.injectFaults(&faultPlan{max: 1})
	}
	hook := verif.Choice("thorough-app-hook", 3)
	if hook != 0 {
		f.w.AB.Events.After(authboss.EventAuth, func(wr http.ResponseWriter, r *http.Request, handled bool) (bool, error) {
			if hook == 1 {
				wr.WriteHeader(200) // the application answers the login itself
				return true, nil
			}
			return false, world.ErrInjected
		})
	}
}

func (f *flow) sval(k string) string { v, _ := f.w.Session.Lookup2(k); return v }

func (f *flow) svalPre(k string) string { v, _ := f.preS.Lookup2(k); return v }

// account returns the ghost record for pid, or nil.
func (f *flow) account(pid string) *acct {
	for _, a := range f.a {
		if a.pid == pid {
			return a
		}
	}
	return nil
}

// symbolicValues: an arbitrary request body.
func symbolicValues() *world.Values {
	return &world.Values{
		PID:          verif.String("v_pid", pidLen),
		Password:     verif.String("v_password", verif.Bound(3, 5)),
		Token:        verif.String("v_token", verif.Bound(8, 12)),
		Code:         verif.String("v_code", 6),
		RecoveryCode: verif.String("v_rcode", verif.Bound(3, 5)),
		PhoneNumber:  verif.String("v_phone", verif.Bound(5, 7)),
		Remember:     verif.Bool("v_remember"),
		Invalid:      verif.Bool("v_invalid"),
	}
}

// routes lists the registered routes in registration order.
// "GET /2fa/totp/qr" renders a QR code PNG (boombuler/barcode, image/png): not modelled and
// outside every claim (DESIGN.md 2.3); it is excluded from entry discovery by name.
func (f *flow) routes() []string {
	var out []string
	for _, r := range f.w.Router.Order {
		if r != "GET /2fa/totp/qr" {
			out = append(out, r)
		}
	}
	return out
}

// serve runs one request on the named route ("METHOD /path") with body vals and optional
// form parameters; reports a panic instead of propagating it.
func (f *flow) serve(route string, vals *world.Values, form map[string]string) (rec *world.Recorder, panicked bool, pval interface{}) {
	f.vals = vals
	parts := strings.SplitN(route, " ", 2)
	h := f.w.Route(route)
	if h == nil {
		panic("route not registered: " + route)
	}
	r := world.Request(parts[0], parts[1], "")
	for k, v := range form {
		r.Form[k] = []string{v}
	}
	if f.urlQuery != nil {
		q := url.Values{}
		for k, v := range f.urlQuery {
			q[k] = []string{v}
		}
		stubs.Queries[r.URL] = q
	}
	f.w.Body.Next = vals
	panicked, pval = world.Try(func() { rec = f.w.Serve(h, r) })
	return
}

func (f *flow) serveHandler(h http.Handler, method, path string) (rec *world.Recorder, panicked bool) {
	panicked, _ = world.Try(func() { rec = f.w.Serve(h, world.Request(method, path, "")) })
	return
}

type valuesAlias struct{}

// symbolicValues2: a second arbitrary request body (distinct input labels).
func symbolicValues2() *world.Values {
	return &world.Values{
		PID:          verif.String("v2_pid", pidLen),
		Password:     verif.String("v2_password", verif.Bound(3, 5)),
		Token:        verif.String("v2_token", verif.Bound(8, 12)),
		Code:         verif.String("v2_code", 6),
		RecoveryCode: verif.String("v2_rcode", verif.Bound(3, 5)),
		PhoneNumber:  verif.String("v2_phone", verif.Bound(5, 7)),
		Remember:     verif.Bool("v2_remember"),
		Invalid:      verif.Bool("v2_invalid"),
	}
}

type (
	responseWriter = http.ResponseWriter
	request        = http.Request
	handlerFunc    = http.HandlerFunc
)

func stubsQueryEscape(s string) string { return url.QueryEscape(s) }

package defaults

// VerifTally exposes tallyCharacters to the verification harness (file injected by overlay,
// never written into the repository).
func VerifTally(s string) (upper, lower, numeric, symbols, whitespace int) {
	return tallyCharacters(s)
}

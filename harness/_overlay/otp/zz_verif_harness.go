package otp

// VerifGenerateOTP exposes generateOTP to the verification harness (file injected by overlay,
// never written into the repository).
func VerifGenerateOTP() (string, string, error) { return generateOTP() }

package sms2fa

// VerifGenerateRandomCode exposes generateRandomCode to the verification harness (file injected
// by overlay, never written into the repository).
func VerifGenerateRandomCode() (string, error) { return generateRandomCode() }
